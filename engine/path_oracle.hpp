// path_oracle.hpp — the C01 oracle: independent of PathGeometric::check().
#pragma once
#include "worlds.hpp"

namespace vo
{
    namespace ob = ompl::base;
    namespace og = ompl::geometric;
    using Fail = std::function<void(const std::string &key, const std::string &what)>;

    inline std::string sstr(const ob::StateSpace *sp, const ob::State *s)
    {
        std::vector<double> r;
        sp->copyToReals(r, s);
        std::string o = "(";
        char b[32];
        for (size_t i = 0; i < r.size(); ++i)
        {
            snprintf(b, sizeof b, "%s%.6g", i ? "," : "", r[i]);
            o += b;
        }
        return o + ")";
    }

    // longest stretch of the path (in units of the resolution length L) that stays inside invalid space
    inline double worstInvalidRun(vw::Problem &P, const og::PathGeometric &path, int perL = 200)
    {
        auto &sp = P.space;
        double L = sp->getLongestValidSegmentLength();
        double step = L / perL;
        ob::State *t = sp->allocState();
        double run = 0, worst = 0;
        size_t n = path.getStateCount();
        if (n == 1)
        {
            sp->freeState(t);
            return P.isValid(path.getState(0)) ? 0 : 0;  // a single point has no extent
        }
        for (size_t i = 0; i + 1 < n; ++i)
        {
            const ob::State *a = path.getState(i), *b = path.getState(i + 1);
            double d = sp->distance(a, b);
            long k = std::max<long>(1, (long)std::ceil(d / step));
            if (k > 40000)
                k = 40000;
            double ds = d / k;
            for (long j = (i == 0 ? 0 : 1); j <= k; ++j)
            {
                const ob::State *q;
                if (j == 0)
                    q = a;
                else if (j == k)
                    q = b;
                else
                {
                    sp->interpolate(a, b, (double)j / (double)k, t);
                    q = t;
                }
                if (!P.isValid(q))
                {
                    run += (j == 0 ? 0 : ds);
                    worst = std::max(worst, run);
                }
                else
                    run = 0;
            }
        }
        sp->freeState(t);
        return worst / L;
    }

    struct Facts
    {
        double worstRunL = 0;
    };

    // checks one reported solution of the CURRENT query
    inline void checkSolution(vw::Problem &P, const ob::PlannerSolution &sol, unsigned flags, const std::string &pl, const Fail &fail, Facts *facts = nullptr,
                              ob::ProblemDefinition *pd = nullptr)
    {
        if (!pd)
            pd = P.pdef.get();
        auto &sp = P.space;
        auto *path = dynamic_cast<og::PathGeometric *>(sol.path_.get());
        if (!path)
        {
            fail("C01|not-geometric-path|" + pl, "reported solution is not a PathGeometric");
            return;
        }
        size_t n = path->getStateCount();
        if (n == 0)
        {
            fail("C01|empty-path|" + pl, "a solution path with no states was reported");
            return;
        }
        // starts at a valid, in-bounds start state of the query
        bool atStart = false;
        for (unsigned i = 0; i < pd->getStartStateCount(); ++i)
        {
            const ob::State *s = pd->getStartState(i);
            if (sp->equalStates(s, path->getState(0)) && sp->satisfiesBounds(s) && P.isValid(s))
                atStart = true;
        }
        if (!atStart)
            fail("C01|not-at-start|" + pl, "path starts at " + sstr(sp.get(), path->getState(0)) + " which is not a valid start state of the query");
        for (size_t i = 0; i < n; ++i)
            if (!sp->satisfiesBounds(path->getState(i)))
            {
                fail("C01|state-out-of-bounds|" + pl, "path state " + std::to_string(i) + " " + sstr(sp.get(), path->getState(i)) + " violates the space bounds");
                break;
            }
        const ob::State *last = path->getState(n - 1);
        auto *goal = pd->getGoal().get();
        if (!sol.approximate_)
        {
            if (!goal->isSatisfied(last))
                fail("C01|exact-not-in-goal|" + pl, "solution not flagged approximate ends at " + sstr(sp.get(), last) + " outside the goal region");
        }
        else if (auto *gr = dynamic_cast<const ob::GoalRegion *>(goal))
        {
            double d = gr->distanceGoal(last);
            if (std::fabs(sol.difference_ - d) > gr->getThreshold() + 1e-9 * (1 + d))
            {
                // classify: with several goal states, is the reported number the distance to one of them (not the nearest)?
                std::string cls = "other";
                if (auto *gs = dynamic_cast<const ob::GoalStates *>(goal))
                    for (std::size_t i = 0; i < gs->getStateCount(); ++i)
                        if (std::fabs(sp->distance(last, gs->getState(i)) - sol.difference_) <= 1e-9 * (1 + d))
                            cls = "distance-to-a-farther-goal-state";
                fail("C01|approx-difference|" + pl + "|" + cls, "approximate solution reports difference " + vf::jnum(sol.difference_) + " but its last state is " + vf::jnum(d) + " from the goal");
            }
        }
        // dense re-validation
        bool car = P.cfg.space == "Dubins" || P.cfg.space == "ReedsShepp";
        double worst = worstInvalidRun(P, *path, car ? 25 : 64);
        if (facts)
            facts->worstRunL = std::max(facts->worstRunL, worst);
        if (worst > 2.0 + 0.05)
            fail("C01|invalid-stretch|" + pl, "the path stays inside invalid space for " + vf::jnum(worst) + " resolution lengths (> 2)");
        if (flags & vpl::EXACT_EDGES)
            for (size_t i = 0; i + 1 < n; ++i)
            {
                const ob::State *a = path->getState(i), *b = path->getState(i + 1);
                // checkMotion assumes its first argument valid; bidirectional planners validate from the other end
                bool ok = (P.isValid(a) && P.si->checkMotion(a, b)) || (P.isValid(b) && P.si->checkMotion(b, a));
                if (!ok)
                {
                    fail("C01|edge-fails-recheck|" + pl, "consecutive path states " + sstr(sp.get(), a) + " -> " + sstr(sp.get(), b) + " do not pass the motion validity check again (either direction)");
                    break;
                }
            }
    }

    // status / flag / solution-set coherence for a solve() on a definition that held `before` solutions
    inline void checkStatus(vw::Problem &P, ob::PlannerStatus st, size_t before, const std::string &pl, const Fail &fail, ob::ProblemDefinition *pd = nullptr)
    {
        if (!pd)
            pd = P.pdef.get();
        size_t now = pd->getSolutionCount();
        auto s = (ob::PlannerStatus::StatusType)st;
        bool solutionStatus = s == ob::PlannerStatus::EXACT_SOLUTION || s == ob::PlannerStatus::APPROXIMATE_SOLUTION;
        if (!solutionStatus)
        {
            if (now != before)
                fail("C01|non-solution-status-adds-path|" + pl, "status " + st.asString() + " but the problem definition gained " + std::to_string(now - before) + " solution path(s)");
            return;
        }
        if (now == 0)
        {
            fail("C01|solution-status-without-path|" + pl, "status " + st.asString() + " but the problem definition holds no solution");
            return;
        }
        if (s == ob::PlannerStatus::EXACT_SOLUTION && !pd->hasExactSolution())
            fail("C01|status-exact-but-approximate|" + pl, "status Exact solution but the problem definition's best solution is flagged approximate");
        if (s == ob::PlannerStatus::APPROXIMATE_SOLUTION && !pd->hasApproximateSolution())
            fail("C01|status-approximate-but-exact|" + pl, "status Approximate solution but the problem definition's best solution is not flagged approximate");
    }

    inline uint64_t observe(vw::Problem &P, ob::PlannerStatus st)
    {
        vf::Hash h;
        int s = (int)(ob::PlannerStatus::StatusType)st;
        h.add(s);
        for (auto &sol : P.pdef->getSolutions())
        {
            h.add(sol.approximate_);
            h.addd(sol.difference_);
            h.add(sol.optimized_);
            if (auto *p = dynamic_cast<og::PathGeometric *>(sol.path_.get()))
                for (auto *x : p->getStates())
                {
                    std::vector<double> r;
                    P.space->copyToReals(r, x);
                    for (double d : r)
                        h.addd(d);
                }
        }
        return h.h;
    }
}  // namespace vo
