// cost_oracle.hpp — C04's per-solution cost clauses, shared by the sequential harness and the schedule-explorer harness.
#pragma once
#include "path_oracle.hpp"
#include "planners.hpp"

namespace vco
{
    namespace ob = ompl::base;
    namespace og = ompl::geometric;

    inline ob::Cost foldCost(const ob::OptimizationObjectivePtr &opt, const og::PathGeometric &p)
    {
        if (p.getStateCount() == 0)
            return opt->identityCost();
        ob::Cost c = opt->initialCost(p.getState(0));
        for (size_t i = 1; i < p.getStateCount(); ++i)
            c = opt->combineCosts(c, opt->motionCost(p.getState(i - 1), p.getState(i)));
        return opt->combineCosts(c, opt->terminalCost(p.getState(p.getStateCount() - 1)));
    }

    struct Best
    {
        bool have = false;
        ob::Cost cost;
    };

    // every solution the definition `pd` holds: stored cost vs. the harness fold of the reported path, admissible bound, optimized flag;
    // returns the best stored cost of an exact solution in `bestNow`
    inline void checkCosts(ob::StateSpace *space, ob::ProblemDefinition *pd, unsigned flags, const std::string &pl, const std::string &objectiveKind, const vo::Fail &fail, vf::Hash *obs,
                           Best &bestNow)
    {
        for (auto &sol : pd->getSolutions())
        {
            auto *path = dynamic_cast<og::PathGeometric *>(sol.path_.get());
            if (!path || path->getStateCount() == 0)
                continue;  // C01's business
            if (!sol.opt_)
                continue;  // planners that attach no objective are only subject to the ordering clauses
            ob::Cost stored = sol.cost_, real = foldCost(sol.opt_, *path);
            if (obs)
                obs->addd(stored.value());
            double tol = 1e-9 * (1 + std::fabs(real.value()));
            bool finite = std::isfinite(stored.value()) && std::isfinite(real.value());
            // stored never better than the true cost
            if (sol.opt_->isCostBetterThan(stored, real) && !(finite && std::fabs(stored.value() - real.value()) <= tol))
                fail("C04|stored-cost-better-than-true|" + pl, "stored cost " + vf::jnum(stored.value()) + " is better than the cost " + vf::jnum(real.value()) + " of the reported path under " + objectiveKind);
            else if ((flags & vpl::COST_EXACT) && !(finite ? std::fabs(stored.value() - real.value()) <= tol : stored.value() == real.value()))
                fail("C04|stored-cost-differs|" + pl, "stored cost " + vf::jnum(stored.value()) + " differs from the cost " + vf::jnum(real.value()) + " of the reported path under " + objectiveKind);
            // admissible bound (path length): straight line from the start to the goal region
            if (objectiveKind == "length" && !sol.approximate_)
                if (auto *gs = dynamic_cast<ob::GoalState *>(pd->getGoal().get()))
                {
                    double lb = space->distance(pd->getStartState(0), gs->getState()) - gs->getThreshold();
                    if (real.value() < lb - tol)
                        fail("C04|below-admissible-bound|" + pl, "path length " + vf::jnum(real.value()) + " is below the straight-line bound " + vf::jnum(lb));
                }
            if (!sol.approximate_ && sol.optimized_ != sol.opt_->isSatisfied(stored))
                fail("C04|optimized-flag|" + pl, std::string("exact solution is ") + (sol.optimized_ ? "" : "not ") + "marked as meeting the objective but its stored cost " + vf::jnum(stored.value()) +
                                                     (sol.opt_->isSatisfied(stored) ? " satisfies" : " does not satisfy") + " the threshold " + vf::jnum(sol.opt_->getCostThreshold().value()));
            if (!sol.approximate_ && (!bestNow.have || sol.opt_->isCostBetterThan(stored, bestNow.cost)))
            {
                bestNow.cost = stored;
                bestNow.have = true;
            }
        }
    }

    // a short first query on the same space information (same start, goal 0.8 to the right): a later, longer query must not inherit
    // anything of it; shares the objective instance of the main definition
    inline ob::ProblemDefinitionPtr shortQuery(vw::Problem &P)
    {
        auto pd = std::make_shared<ob::ProblemDefinition>(P.si);
        ob::ScopedState<> s(P.space), g(P.space);
        vw::setXY(P.space.get(), s.get(), P.map.sx + 0.263, P.map.sy + 0.257, 0.3);
        vw::setXY(P.space.get(), g.get(), P.map.sx + 0.263 + 0.8, P.map.sy + 0.257, 0.3);
        pd->addStartState(s);
        pd->setGoalState(g, P.cfg.threshold);
        if (P.pdef->hasOptimizationObjective())
            pd->setOptimizationObjective(P.pdef->getOptimizationObjective());
        return pd;
    }
}  // namespace vco
