// guard.hpp — process isolation for executions that may crash, hang or eat memory (planner runs).
// A *group* of executions runs in a forked child; before each execution the child announces its descriptor in shared
// memory; the child's partial report comes back through a file. If the child dies, the announced execution is re-run
// ALONE in a second child with a longer time limit ("replay before report") and, if it fails again, recorded as a failure;
// the group is then restarted with that execution on the skip list.
#pragma once
#include "vf.hpp"
#include <csignal>
#include <fcntl.h>
#include <sys/mman.h>
#include <sys/resource.h>
#include <sys/wait.h>
#include <unistd.h>

namespace vg
{
    struct Shared
    {
        char current[8192];  // descriptor (JSON) of the execution in progress
        long done;           // executions completed in this child
    };

    // binary (de)serialisation of a Report between child and parent
    inline void wr(FILE *f, const std::string &s)
    {
        uint64_t n = s.size();
        fwrite(&n, 8, 1, f);
        fwrite(s.data(), 1, n, f);
    }
    inline std::string rd(FILE *f)
    {
        uint64_t n = 0;
        if (fread(&n, 8, 1, f) != 1)
            return "";
        std::string s(n, 0);
        if (n && fread(&s[0], 1, n, f) != n)
            return "";
        return s;
    }
    inline void save(const vf::Report &r, const std::string &path)
    {
        FILE *f = fopen(path.c_str(), "wb");
        if (!f)
            _exit(9);
        long v[4] = {r.states, r.transitions, r.validated, r.evaluations};
        fwrite(v, sizeof v, 1, f);
        char ex = r.exhaustive;
        fwrite(&ex, 1, 1, f);
        auto wset = [&](const std::unordered_set<uint64_t> &s) {
            uint64_t n = s.size();
            fwrite(&n, 8, 1, f);
            for (auto h : s)
                fwrite(&h, 8, 1, f);
        };
        wset(r.nontrivial);
        wset(r.outcomes);
        auto wvec = [&](const std::vector<std::string> &v2) {
            uint64_t n = v2.size();
            fwrite(&n, 8, 1, f);
            for (auto &s : v2)
                wr(f, s);
        };
        wvec(r.caps);
        wvec(r.samples);
        uint64_t n = r.failures.size();
        fwrite(&n, 8, 1, f);
        for (auto &x : r.failures)
        {
            wr(f, x.key);
            wr(f, x.what);
            wr(f, x.replay);
            long c = r.failCount.at(x.key);
            fwrite(&c, sizeof c, 1, f);
        }
        n = r.metrics.size();
        fwrite(&n, 8, 1, f);
        for (auto &m : r.metrics)
        {
            wr(f, m.first);
            fwrite(&m.second, 8, 1, f);
        }
        n = r.bounds.size();
        fwrite(&n, 8, 1, f);
        for (auto &m : r.bounds)
        {
            wr(f, m.first);
            wr(f, m.second);
        }
        fclose(f);
    }
    inline bool mergeFile(vf::Report &r, const std::string &path)
    {
        FILE *f = fopen(path.c_str(), "rb");
        if (!f)
            return false;
        long v[4];
        if (fread(v, sizeof v, 1, f) != 1)
        {
            fclose(f);
            return false;
        }
        r.states += v[0];
        r.transitions += v[1];
        r.validated += v[2];
        r.evaluations += v[3];
        char ex = 1;
        fread(&ex, 1, 1, f);
        if (!ex)
            r.exhaustive = false;
        auto rset = [&](std::unordered_set<uint64_t> &s) {
            uint64_t n = 0;
            fread(&n, 8, 1, f);
            for (uint64_t i = 0; i < n; ++i)
            {
                uint64_t h;
                fread(&h, 8, 1, f);
                s.insert(h);
            }
        };
        rset(r.nontrivial);
        rset(r.outcomes);
        uint64_t n = 0;
        fread(&n, 8, 1, f);
        for (uint64_t i = 0; i < n; ++i)
        {
            std::string c = rd(f);
            if (std::find(r.caps.begin(), r.caps.end(), c) == r.caps.end())
                r.caps.push_back(c);
        }
        fread(&n, 8, 1, f);
        for (uint64_t i = 0; i < n; ++i)
            r.sample(rd(f));
        fread(&n, 8, 1, f);
        for (uint64_t i = 0; i < n; ++i)
        {
            std::string k = rd(f), w = rd(f), rp = rd(f);
            long c = 1;
            fread(&c, sizeof c, 1, f);
            long &cnt = r.failCount[k];
            if (cnt < (long)r.maxFailuresPerKey)
                r.failures.push_back({k, w, rp});
            cnt += c;
        }
        fread(&n, 8, 1, f);
        for (uint64_t i = 0; i < n; ++i)
        {
            std::string k = rd(f);
            double d = 0;
            fread(&d, 8, 1, f);
            if (k.substr(0, 4) == "max_")
                r.metrics[k] = std::max(r.metrics.count(k) ? r.metrics[k] : d, d);
            else
                r.metrics[k] += d;
        }
        fread(&n, 8, 1, f);
        for (uint64_t i = 0; i < n; ++i)
        {
            std::string k = rd(f), val = rd(f);
            r.bounds[k] = val;
        }
        fclose(f);
        return true;
    }

    struct Outcome
    {
        bool clean = false;   // child exited normally
        int sig = 0;          // terminating signal (0 if none)
        int code = 0;         // exit code
        bool timeout = false; // killed by the wall-clock limit
        std::string current;  // descriptor announced when it died
        long done = 0;
    };

    struct Group
    {
        Shared *sh = nullptr;
        std::function<void()> onChildStart;
        std::string tmp;
        Group()
        {
            sh = (Shared *)mmap(nullptr, sizeof(Shared), PROT_READ | PROT_WRITE, MAP_SHARED | MAP_ANONYMOUS, -1, 0);
            char b[64];
            snprintf(b, sizeof b, "/verif/build/run/guard-%d-%p.bin", (int)getpid(), (void *)this);
            tmp = b;
        }
        ~Group()
        {
            munmap(sh, sizeof(Shared));
            unlink(tmp.c_str());
        }
        void announce(const std::string &desc)
        {
            size_t n = std::min(desc.size(), sizeof(sh->current) - 1);
            memcpy(sh->current, desc.data(), n);
            sh->current[n] = 0;
        }
        // body fills a fresh Report; it must call announce() before each execution and may consult skip
        Outcome run(const std::function<void(vf::Report &)> &body, vf::Report &into, double wallLimit)
        {
            sh->current[0] = 0;
            sh->done = 0;
            unlink(tmp.c_str());
            fflush(stdout);
            fflush(stderr);
            pid_t pid = fork();
            if (pid == 0)
            {
                // child: quiet stderr noise of crashes is kept (driver shows the tail), time limit by alarm
                if (onChildStart)
                    onChildStart();
                vf::Report r;
                r.maxFailuresPerKey = into.maxFailuresPerKey;
                r.maxSamples = into.maxSamples;
                body(r);
                save(r, tmp);
                _exit(0);
            }
            Outcome o;
            // wait with a wall-clock limit
            auto t0 = std::chrono::steady_clock::now();
            int st = 0;
            for (;;)
            {
                pid_t w = waitpid(pid, &st, WNOHANG);
                if (w == pid)
                    break;
                double el = std::chrono::duration<double>(std::chrono::steady_clock::now() - t0).count();
                if (el > wallLimit)
                {
                    kill(pid, SIGKILL);
                    waitpid(pid, &st, 0);
                    o.timeout = true;
                    break;
                }
                usleep(el < 0.05 ? 200 : 2000);
            }
            o.current = sh->current;
            o.done = sh->done;
            if (!o.timeout && WIFEXITED(st) && WEXITSTATUS(st) == 0)
            {
                o.clean = mergeFile(into, tmp);
                if (!o.clean)
                    o.code = 99;
            }
            else if (!o.timeout)
            {
                if (WIFSIGNALED(st))
                    o.sig = WTERMSIG(st);
                else
                    o.code = WEXITSTATUS(st);
            }
            return o;
        }
    };
}  // namespace vg
