// worlds.hpp — tiny cell worlds, the lattice state sampler driven by the choice oracle, and one planner execution.
#pragma once
#include "choice.hpp"
#include "planners.hpp"
#include "vf.hpp"
#include <ompl/base/ProblemDefinition.h>
#include <ompl/base/PlannerTerminationCondition.h>
#include <ompl/base/goals/GoalState.h>
#include <ompl/base/goals/GoalStates.h>
#include <ompl/base/goals/GoalRegion.h>
#include <ompl/base/objectives/PathLengthOptimizationObjective.h>
#include <ompl/base/objectives/StateCostIntegralObjective.h>
#include <ompl/base/objectives/MechanicalWorkOptimizationObjective.h>
#include <ompl/base/objectives/MaximizeMinClearanceObjective.h>
#include <ompl/base/StateValidityChecker.h>
#include <ompl/base/spaces/RealVectorStateSpace.h>
#include <ompl/base/spaces/RealVectorStateProjections.h>
#include <ompl/base/spaces/SE2StateSpace.h>
#include <ompl/base/spaces/SO2StateSpace.h>
#include <ompl/base/spaces/DubinsStateSpace.h>
#include <ompl/base/spaces/ReedsSheppStateSpace.h>
#include <ompl/geometric/PathGeometric.h>
#include <ompl/util/Console.h>
#include <cxxabi.h>
#include <dlfcn.h>
#include <execinfo.h>

namespace vw
{
    namespace ob = ompl::base;
    namespace og = ompl::geometric;

    struct Map
    {
        std::string name;
        std::vector<std::string> rows;  // rows[y][x], '#' obstacle
        int sx, sy, gx, gy;             // start / goal cells
        int W() const
        {
            return rows[0].size();
        }
        int H() const
        {
            return rows.size();
        }
        bool free(int x, int y) const
        {
            if (x < 0 || y < 0)
                return false;
            if (x >= W())
                x = W() - 1;
            if (y >= H())
                y = H() - 1;
            return rows[y][x] != '#';
        }
    };
    inline std::vector<Map> maps()
    {
        return {
            {"empty4", {"....", "....", "....", "...."}, 0, 0, 3, 3},
            {"wallgap4", {"....", "###.", "....", "...."}, 0, 0, 0, 3},
            {"diag4", {"..#.", ".#..", "#...", "...."}, 0, 0, 3, 3},   // diagonal wall: corner cutting between (x,y) cells
            {"utrap4", {"....", ".##.", ".#..", "...."}, 2, 2, 0, 0},
            {"corridor6", {"......", "#####.", "......", ".#####", "......", "......"}, 0, 0, 0, 5},
            {"enclosed4", {"....", "....", "..##", "..#."}, 0, 0, 3, 3},  // goal enclosed: no exact solution
            {"startobst4", {"#...", "....", "....", "...."}, 0, 0, 3, 3},  // obstacle on start
            {"goalobst4", {"....", "....", "....", "...#"}, 0, 0, 3, 3},   // obstacle on goal
            {"maze6", {"......", ".##...", ".#..#.", "...##.", ".#....", "......"}, 0, 0, 5, 5},
        };
    }
    inline const Map &mapByName(const std::string &n)
    {
        static std::vector<Map> M = maps();
        for (auto &m : M)
            if (m.name == n)
                return m;
        fprintf(stderr, "unknown map %s\n", n.c_str());
        exit(2);
    }

    // ---- problem configuration ----
    struct Cfg
    {
        std::string planner = "RRT", map = "empty4", space = "R2";  // R2 | SE2 | Dubins | ReedsShepp
        std::string goal = "state";                                   // state | states | region-unsampleable
        double threshold = 0.3;                                       // goal threshold (never 0: GoalRegion::isSatisfied is strict)
        double range = 0;                                             // 0 = planner default
        double resolution = 0.02;                                     // validity checking resolution (fraction of extent)
        int budget = 60;                                              // termination condition fires at evaluation budget+1
        bool objective = true;
        std::string objectiveKind = "length";  // length | integral | work | clearance | multi
        double costThreshold = -1;              // < 0: the objective's default threshold
        std::string proj;                       // "coarse": default projection with 1.7 x 1.3 cells (not aligned with the unit obstacle cells) on x, y
        int starts = 1;                         // 3: an invalid start state first (inside an obstacle cell), the usual one, and a second valid one
        std::string sampler = "lattice";        // lattice (oracle STATE choices) | default (library sampler) | snap (library sampler snapped to a grid: ties)
        std::string json() const
        {
            return "\"planner\":" + vf::jesc(planner) + ",\"map\":" + vf::jesc(map) + ",\"space\":" + vf::jesc(space) + ",\"goal\":" + vf::jesc(goal) + ",\"threshold\":" + vf::jnum(threshold) +
                   ",\"range\":" + vf::jnum(range) + ",\"resolution\":" + vf::jnum(resolution) + ",\"budget\":" + std::to_string(budget) + ",\"objective\":" + (objective ? "true" : "false") + ",\"objectiveKind\":" + vf::jesc(objectiveKind) + ",\"costThreshold\":" + vf::jnum(costThreshold) + ",\"sampler\":" + vf::jesc(sampler) + (starts != 1 ? ",\"starts\":" + std::to_string(starts) : std::string()) + (proj.empty() ? std::string() : ",\"proj\":" + vf::jesc(proj));
        }
        static Cfg fromJson(const vf::JV &v)
        {
            Cfg c;
            c.planner = v["planner"].s;
            c.map = v["map"].s;
            c.space = v["space"].s;
            c.goal = v["goal"].s;
            c.threshold = v["threshold"].d();
            c.range = v["range"].d();
            c.resolution = v["resolution"].d();
            c.budget = v["budget"].i();
            c.objective = v["objective"].b;
            if (v.has("objectiveKind"))
                c.objectiveKind = v["objectiveKind"].s;
            if (v.has("costThreshold"))
                c.costThreshold = v["costThreshold"].d();
            if (v.has("sampler"))
                c.sampler = v["sampler"].s;
            if (v.has("starts"))
                c.starts = v["starts"].i();
            if (v.has("proj"))
                c.proj = v["proj"].s;
            return c;
        }
    };

    inline void xy(const ob::StateSpace *sp, const ob::State *s, double &x, double &y)
    {
        if (sp->getType() == ob::STATE_SPACE_REAL_VECTOR)
        {
            auto *v = s->as<ob::RealVectorStateSpace::StateType>()->values;
            x = v[0];
            y = v[1];
        }
        else
        {
            auto *e = s->as<ob::SE2StateSpace::StateType>();
            x = e->getX();
            y = e->getY();
        }
    }
    inline void setXY(const ob::StateSpace *sp, ob::State *s, double x, double y, double yaw)
    {
        if (sp->getType() == ob::STATE_SPACE_REAL_VECTOR)
        {
            auto *v = s->as<ob::RealVectorStateSpace::StateType>()->values;
            v[0] = x;
            v[1] = y;
            if (sp->getDimension() == 4)  // "R4pin": a free third coordinate in [0,1] and a coordinate pinned to 0.5
            {
                v[2] = 0.5 + 0.15 * yaw;
                v[3] = 0.5;
            }
        }
        else
        {
            auto *e = s->as<ob::SE2StateSpace::StateType>();
            e->setXY(x, y);
            e->setYaw(yaw);
        }
    }

    // lattice of the world: two points per cell (kept >= 0.05 away from the integer obstacle lines), a few headings
    struct Lattice
    {
        std::vector<std::array<double, 3>> pts;
        Lattice(const Map &m, bool headings)
        {
            const double yaws[4] = {0.3, 1.9, -2.8, -1.2};
            for (int y = 0; y < m.H(); ++y)
                for (int x = 0; x < m.W(); ++x)
                {
                    pts.push_back({x + 0.5 + 0.013, y + 0.5 + 0.007, yaws[(x + 2 * y) % 4]});
                    pts.push_back({x + 0.07, y + 0.93, yaws[(x + y + 1) % 4]});
                }
            (void)headings;
        }
    };

    // the state sampler installed through the public allocator seam: every sample is a STATE choice of the oracle
    struct LatSampler : ob::StateSampler
    {
        const Lattice &lat;
        LatSampler(const ob::StateSpace *sp, const Lattice &l) : ob::StateSampler(sp), lat(l)
        {
        }
        vc::Oracle *orc() const
        {
            return static_cast<vc::Oracle *>(ompl::verif::rngOracle());
        }
        void put(ob::State *s, int i)
        {
            setXY(space_, s, lat.pts[i][0], lat.pts[i][1], lat.pts[i][2]);
        }
        void sampleUniform(ob::State *s) override
        {
            put(s, orc()->pickIndex(vc::STATE, (int)lat.pts.size()));
        }
        void sampleUniformNear(ob::State *s, const ob::State *near, double distance) override
        {
            // respect the contract: only lattice states within 'distance' of near (near itself if there is none)
            std::vector<int> cand;
            ob::State *t = space_->allocState();
            for (size_t i = 0; i < lat.pts.size(); ++i)
            {
                put(t, (int)i);
                if (space_->distance(near, t) <= distance)
                    cand.push_back((int)i);
            }
            space_->freeState(t);
            if (cand.empty())
            {
                if (s != near)
                    space_->copyState(s, near);
                return;
            }
            put(s, cand[orc()->pickIndex(vc::STATE, (int)cand.size())]);
        }
        void sampleGaussian(ob::State *s, const ob::State *mean, double stdDev) override
        {
            sampleUniformNear(s, mean, 2 * stdDev);
        }
    };

    // the library's own sampler with every coordinate snapped to a half-cell grid: distance ties everywhere (C20)
    struct SnapSampler : ob::StateSampler
    {
        ob::StateSamplerPtr inner;
        SnapSampler(const ob::StateSpace *sp, ob::StateSamplerPtr in) : ob::StateSampler(sp), inner(std::move(in))
        {
        }
        void snap(ob::State *s)
        {
            double x, y;
            xy(space_, s, x, y);
            x = std::floor(x * 2) / 2 + 0.25;
            y = std::floor(y * 2) / 2 + 0.25;
            auto *rv = space_->getType() == ob::STATE_SPACE_REAL_VECTOR ? space_->as<ob::RealVectorStateSpace>() : space_->as<ob::SE2StateSpace>()->getSubspace(0)->as<ob::RealVectorStateSpace>();
            x = std::min(x, rv->getBounds().high[0] - 0.25);
            y = std::min(y, rv->getBounds().high[1] - 0.25);
            double yaw = 0;
            if (space_->getType() != ob::STATE_SPACE_REAL_VECTOR)
                yaw = std::floor(s->as<ob::SE2StateSpace::StateType>()->getYaw() * 2) / 2;
            setXY(space_, s, x, y, yaw);
        }
        void sampleUniform(ob::State *s) override
        {
            inner->sampleUniform(s);
            snap(s);
        }
        void sampleUniformNear(ob::State *s, const ob::State *near, double d) override
        {
            inner->sampleUniformNear(s, near, d);
            snap(s);
        }
        void sampleGaussian(ob::State *s, const ob::State *mean, double sd) override
        {
            inner->sampleGaussian(s, mean, sd);
            snap(s);
        }
    };

    struct UnsampleableRegion : ob::GoalRegion
    {
        double gx, gy;
        UnsampleableRegion(const ob::SpaceInformationPtr &si, double x, double y) : ob::GoalRegion(si), gx(x), gy(y)
        {
        }
        double distanceGoal(const ob::State *s) const override
        {
            double x, y;
            xy(si_->getStateSpace().get(), s, x, y);
            return std::hypot(x - gx, y - gy);
        }
    };

    // R^2 whose allocState/freeState are counted, with the allocation call stack kept for states still alive
    struct CountingR2 : ob::RealVectorStateSpace
    {
        struct Rec
        {
            void *frames[10];
            int n;
        };
        mutable std::map<const ob::State *, Rec> live;
        mutable long allocs = 0, frees = 0, badFrees = 0;
        mutable std::string badFreeSite;
        CountingR2() : ob::RealVectorStateSpace(2)
        {
        }
        ob::State *allocState() const override
        {
            ob::State *s = ob::RealVectorStateSpace::allocState();
            Rec r;
            r.n = backtrace(r.frames, 10);
            live[s] = r;
            ++allocs;
            return s;
        }
        void freeState(ob::State *s) const override
        {
            auto it = live.find(s);
            if (it == live.end())
            {
                // freeing a state this space does not own (any more): double free or foreign pointer; do NOT pass it on
                ++badFrees;
                if (badFreeSite.empty())
                {
                    void *fr[10];
                    int n = backtrace(fr, 10);
                    badFreeSite = site(fr, n);
                }
                return;
            }
            live.erase(it);
            ++frees;
            ob::RealVectorStateSpace::freeState(s);
        }
        // first frame outside the state-space / space-information plumbing
        static std::string site(void *const *frames, int n)
        {
            for (int i = 1; i < n; ++i)
            {
                Dl_info info;
                if (!dladdr(frames[i], &info) || !info.dli_sname)
                    continue;
                int st = 0;
                char *dem = abi::__cxa_demangle(info.dli_sname, nullptr, nullptr, &st);
                std::string name = dem ? dem : info.dli_sname;
                free(dem);
                if (name.find("allocState") != std::string::npos || name.find("cloneState") != std::string::npos || name.find("freeState") != std::string::npos ||
                    name.find("CountingR2") != std::string::npos || name.find("ScopedState") != std::string::npos || name.find("StateSpace::") != std::string::npos ||
                    name.find("SpaceInformation::") != std::string::npos || name.find("backtrace") != std::string::npos)
                    continue;
                auto p = name.find('(');
                if (p != std::string::npos)
                    name = name.substr(0, p);
                return name;
            }
            return "?";
        }
        std::map<std::string, int> leakSites() const
        {
            std::map<std::string, int> m;
            for (auto &l : live)
                m[site(l.second.frames, l.second.n)]++;
            return m;
        }
    };

    // everything of one problem instance; nothing is shared between executions
    struct Problem
    {
        Cfg cfg;
        const Map &map;
        Lattice lat;
        ob::StateSpacePtr space;
        ob::SpaceInformationPtr si;
        ob::ProblemDefinitionPtr pdef;
        ob::PlannerPtr planner;
        std::vector<ob::ScopedState<>> starts;
        long evals = 0;
        bool isValid(const ob::State *s) const
        {
            double x, y;
            xy(space.get(), s, x, y);
            if (x < 0 || y < 0 || x > map.W() || y > map.H())
                return false;
            return map.free((int)std::floor(x), (int)std::floor(y));
        }
        Problem(const Cfg &c) : cfg(c), map(mapByName(c.map)), lat(map, c.space != "R2")
        {
            if (c.space == "R4pin")
            {
                // R^4 with a zero-extent dimension (a locked joint): dimension > 2 selects the random linear default projection
                auto r = std::make_shared<ob::RealVectorStateSpace>(4);
                ob::RealVectorBounds b(4);
                b.setLow(0);
                b.setHigh(0, map.W());
                b.setHigh(1, map.H());
                b.setHigh(2, 1.0);
                b.setLow(3, 0.5);
                b.setHigh(3, 0.5);
                r->setBounds(b);
                space = r;
            }
            else if (c.space == "R2" || c.space == "R2count")
            {
                std::shared_ptr<ob::RealVectorStateSpace> r;
                if (c.space == "R2count")
                    r = std::make_shared<CountingR2>();
                else
                    r = std::make_shared<ob::RealVectorStateSpace>(2);
                ob::RealVectorBounds b(2);
                b.setLow(0);
                b.setHigh(0, map.W());
                b.setHigh(1, map.H());
                r->setBounds(b);
                space = r;
            }
            else
            {
                std::shared_ptr<ob::SE2StateSpace> r;
                if (c.space == "SE2")
                    r = std::make_shared<ob::SE2StateSpace>();
                else if (c.space == "Dubins")
                    r = std::make_shared<ob::DubinsStateSpace>(0.4);
                else
                    r = std::make_shared<ob::ReedsSheppStateSpace>(0.4);
                ob::RealVectorBounds b(2);
                b.setLow(0);
                b.setHigh(0, map.W());
                b.setHigh(1, map.H());
                r->setBounds(b);
                space = r;
            }
            const Lattice *L = &lat;
            if (c.sampler == "lattice")
                space->setStateSamplerAllocator([L](const ob::StateSpace *sp) { return std::make_shared<LatSampler>(sp, *L); });
            else if (c.sampler == "snap")
                space->setStateSamplerAllocator([](const ob::StateSpace *sp) { return std::make_shared<SnapSampler>(sp, sp->allocDefaultStateSampler()); });
            si = std::make_shared<ob::SpaceInformation>(space);
            si->setStateValidityChecker(std::make_shared<Checker>(si, this));
            si->setStateValidityCheckingResolution(c.resolution);
            if (c.space == "Dubins")
                si->setMotionValidator(std::make_shared<ob::DubinsMotionValidator>(si));
            else if (c.space == "ReedsShepp")
                si->setMotionValidator(std::make_shared<ob::ReedsSheppMotionValidator>(si));
            si->setup();
            if (c.proj == "coarse" && space->getType() == ob::STATE_SPACE_REAL_VECTOR && space->getDimension() == 2)
            {
                // grid cells of the projection-based planners that straddle obstacle boundaries: two states of one projection cell
                // can be separated by an obstacle, so the edges that join them need their own motion check
                space->registerDefaultProjection(std::make_shared<ob::RealVectorOrthogonalProjectionEvaluator>(space, std::vector<double>{1.7, 1.3}, std::vector<unsigned int>{0, 1}));
            }
            pdef = std::make_shared<ob::ProblemDefinition>(si);
            ob::ScopedState<> s(space), g(space);
            setXY(space.get(), s.get(), map.sx + 0.263, map.sy + 0.257, 0.3);
            setXY(space.get(), g.get(), map.gx + 0.763, map.gy + 0.757, 1.9);
            if (c.starts > 1)
            {
                // several start states, the first of them invalid: planners must skip it and may grow from either of the others
                for (int yy = 0; yy < map.H() && starts.empty(); ++yy)
                    for (int xx = 0; xx < map.W() && starts.empty(); ++xx)
                        if (!map.free(xx, yy))
                        {
                            ob::ScopedState<> bad(space);
                            setXY(space.get(), bad.get(), xx + 0.5, yy + 0.5, 0.7);
                            starts.push_back(bad);
                            pdef->addStartState(bad);
                        }
            }
            starts.push_back(s);
            pdef->addStartState(s);
            if (c.starts > 1)
            {
                bool done = false;
                for (int yy = map.H() - 1; yy >= 0 && !done; --yy)
                    for (int xx = map.W() - 1; xx >= 0 && !done; --xx)
                        if (map.free(xx, yy) && !(xx == map.sx && yy == map.sy) && !(xx == map.gx && yy == map.gy))
                        {
                            ob::ScopedState<> s2(space);
                            setXY(space.get(), s2.get(), xx + 0.337, yy + 0.671, -2.1);
                            starts.push_back(s2);
                            pdef->addStartState(s2);
                            done = true;
                        }
            }
            if (c.goal == "state")
                pdef->setGoalState(g, c.threshold);
            else if (c.goal == "states")
            {
                auto gs = std::make_shared<ob::GoalStates>(si);
                gs->addState(g);
                ob::ScopedState<> g2(space);
                setXY(space.get(), g2.get(), map.gx + 0.3, map.gy + 0.4, -1.2);
                gs->addState(g2);
                gs->setThreshold(c.threshold);
                pdef->setGoal(gs);
            }
            else
            {
                auto gr = std::make_shared<UnsampleableRegion>(si, map.gx + 0.763, map.gy + 0.757);
                gr->setThreshold(c.threshold);
                pdef->setGoal(gr);
            }
            if (c.objective)
                pdef->setOptimizationObjective(makeObjective());
            auto *e = vpl::find(c.planner);
            if (!e)
            {
                fprintf(stderr, "unknown planner %s\n", c.planner.c_str());
                exit(2);
            }
            planner = e->make(si);
            if (c.range > 0 && planner->params().hasParam("range"))
                planner->params().setParam("range", std::to_string(c.range));
            planner->setProblemDefinition(pdef);
            planner->setup();
        }
        // harness cost field for the state-cost objectives: cheap near the lower edge, expensive near the top
        struct FieldIntegral : ob::StateCostIntegralObjective
        {
            FieldIntegral(const ob::SpaceInformationPtr &si) : ob::StateCostIntegralObjective(si, true)
            {
            }
            ob::Cost stateCost(const ob::State *s) const override
            {
                double x, y;
                xy(si_->getStateSpace().get(), s, x, y);
                return ob::Cost(1.0 + 0.5 * y + 0.1 * x);
            }
        };
        // a NON-linear cost field: the trapezoid rule of the interpolated motion cost then depends on where the sample points are, so the
        // discretisation itself (number and position of the interpolation points, direction of traversal) is exercised
        struct FieldIntegralNL : ob::StateCostIntegralObjective
        {
            FieldIntegralNL(const ob::SpaceInformationPtr &si) : ob::StateCostIntegralObjective(si, true)
            {
            }
            ob::Cost stateCost(const ob::State *s) const override
            {
                double x, y;
                xy(si_->getStateSpace().get(), s, x, y);
                return ob::Cost(1.0 + 0.35 * y * y + 0.2 * std::sin(1.3 * x) * std::sin(1.3 * x));
            }
        };
        struct FieldWork : ob::MechanicalWorkOptimizationObjective
        {
            FieldWork(const ob::SpaceInformationPtr &si) : ob::MechanicalWorkOptimizationObjective(si)
            {
            }
            ob::Cost stateCost(const ob::State *s) const override
            {
                double x, y;
                xy(si_->getStateSpace().get(), s, x, y);
                return ob::Cost(0.7 * y + 0.2 * x);
            }
        };
        ob::OptimizationObjectivePtr makeObjective() const
        {
            ob::OptimizationObjectivePtr o;
            const std::string &k = cfg.objectiveKind;
            if (k == "integral")
                o = std::make_shared<FieldIntegral>(si);
            else if (k == "integralnl")
                o = std::make_shared<FieldIntegralNL>(si);
            else if (k == "work")
                o = std::make_shared<FieldWork>(si);
            else if (k == "clearance")
                o = std::make_shared<ob::MaximizeMinClearanceObjective>(si);
            else if (k == "multi")
            {
                auto m = std::make_shared<ob::MultiOptimizationObjective>(si);
                m->addObjective(std::make_shared<ob::PathLengthOptimizationObjective>(si), 1.0);
                m->addObjective(std::make_shared<FieldIntegral>(si), 0.5);
                m->lock();
                o = m;
            }
            else
                o = std::make_shared<ob::PathLengthOptimizationObjective>(si);
            if (cfg.costThreshold >= 0)
                o->setCostThreshold(ob::Cost(cfg.costThreshold));
            return o;
        }
        double clearanceOf(const ob::State *s) const
        {
            double x, y;
            xy(space.get(), s, x, y);
            double best = 1e9;
            for (int yy = 0; yy < map.H(); ++yy)
                for (int xx = 0; xx < map.W(); ++xx)
                    if (!map.free(xx, yy))
                        best = std::min(best, std::max(std::fabs(x - (xx + 0.5)), std::fabs(y - (yy + 0.5))) - 0.5);
            return best > 1e8 ? 10.0 : best;
        }
        struct Checker : ob::StateValidityChecker
        {
            const Problem *P;
            Checker(const ob::SpaceInformationPtr &si, const Problem *p) : ob::StateValidityChecker(si), P(p)
            {
            }
            bool isValid(const ob::State *s) const override
            {
                return P->isValid(s);
            }
            double clearance(const ob::State *s) const override
            {
                return P->clearanceOf(s);
            }
        };
        // a second query on the same space information: different start and goal, none of them a lattice point
        ob::ProblemDefinitionPtr query2()
        {
            auto pd = std::make_shared<ob::ProblemDefinition>(si);
            ob::ScopedState<> s(space), g(space);
            setXY(space.get(), s.get(), map.gx + 0.611, map.gy + 0.347, 0.3);
            setXY(space.get(), g.get(), map.sx + 0.419, map.sy + 0.583, 1.9);
            pd->addStartState(s);
            pd->setGoalState(g, cfg.threshold);
            if (cfg.objective)
                pd->setOptimizationObjective(makeObjective());
            return pd;
        }
        ob::PlannerStatus solve(int budget)
        {
            long calls = 0;
            ob::PlannerTerminationCondition ptc([&] { return ++calls > budget; });
            auto st = planner->solve(ptc);
            evals = calls;
            return st;
        }
    };
}  // namespace vw
