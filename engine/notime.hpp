// notime.hpp — sleeps inside the library are virtual in sequential harnesses: PlannerInputStates::nextGoal() sleeps 10 ms per
// attempt while it waits for a valid goal sample; with an evaluation-counting termination condition that wait is bounded by the
// evaluation budget, and real sleeping would only slow the exploration down (1.5 s per solve on a world whose goal is invalid).
#pragma once
#include <sys/syscall.h>
#include <time.h>
#include <unistd.h>
namespace vf
{
    inline bool &virtualSleep()
    {
        static bool v = false;
        return v;
    }
}
extern "C" int nanosleep(const struct timespec *req, struct timespec *rem)
{
    if (vf::virtualSleep())
        return 0;
    return (int)syscall(SYS_nanosleep, req, rem);
}
extern "C" int clock_nanosleep(clockid_t clk, int flags, const struct timespec *req, struct timespec *rem)
{
    if (vf::virtualSleep())
        return 0;
    long r = syscall(SYS_clock_nanosleep, clk, flags, req, rem);
    return r == 0 ? 0 : (int)-r;
}

// ---- virtual clock (opt-in): when vf::virtualNow() is non-negative every clock reads it (ns since the epoch) ----
namespace vf
{
    inline long long &virtualNow()
    {
        static long long v = -1;
        return v;
    }
}
extern "C" int clock_gettime(clockid_t clk, struct timespec *ts)
{
    if (vf::virtualNow() >= 0)
    {
        ts->tv_sec = vf::virtualNow() / 1000000000LL;
        ts->tv_nsec = vf::virtualNow() % 1000000000LL;
        return 0;
    }
    return (int)syscall(SYS_clock_gettime, clk, ts);
}
