// vf.hpp — shared plumbing of all /verif harnesses: job protocol, JSON report, hashing, deadlines.
// A harness is an executable with three entry points (see bin/vcheck):
//   <exe> --tier quick|thorough --list                 -> prints one job name per line
//   <exe> --tier T --job NAME --out FILE [--deadline S] -> explores the job, writes a JSON report to FILE
//   <exe> --replay FILE                                -> re-runs one recorded failing case, exit 1 if it fails again
#pragma once
#include <chrono>
#include <cmath>
#include <cstdint>
#include <cstdio>
#include <cstdlib>
#include <cstring>
#include <functional>
#include <map>
#include <set>
#include <sstream>
#include <string>
#include <unordered_set>
#include <vector>
#include <sys/wait.h>
#include <unistd.h>

namespace vf
{
    inline std::string jesc(const std::string &s)
    {
        std::string o = "\"";
        for (unsigned char c : s)
        {
            if (c == '"' || c == '\\')
            {
                o += '\\';
                o += c;
            }
            else if (c == '\n')
                o += "\\n";
            else if (c == '\t')
                o += "\\t";
            else if (c < 0x20)
            {
                char b[8];
                snprintf(b, sizeof b, "\\u%04x", c);
                o += b;
            }
            else
                o += c;
        }
        return o + "\"";
    }
    inline std::string jnum(double d)
    {
        if (std::isnan(d))
            return "\"nan\"";
        if (std::isinf(d))
            return d > 0 ? "\"inf\"" : "\"-inf\"";
        char b[40];
        snprintf(b, sizeof b, "%.17g", d);
        return b;
    }
    template <class T>
    inline std::string jlist(const std::vector<T> &v, std::function<std::string(const T &)> f)
    {
        std::string o = "[";
        for (size_t i = 0; i < v.size(); ++i)
            o += (i ? "," : "") + f(v[i]);
        return o + "]";
    }
    inline std::string jstrs(const std::vector<std::string> &v)
    {
        std::string o = "[";
        for (size_t i = 0; i < v.size(); ++i)
            o += (i ? "," : "") + jesc(v[i]);
        return o + "]";
    }

    struct Hash
    {
        uint64_t h = 1469598103934665603ULL;
        void mix(const void *d, size_t n)
        {
            const unsigned char *c = (const unsigned char *)d;
            for (size_t i = 0; i < n; ++i)
            {
                h ^= c[i];
                h *= 1099511628211ULL;
            }
        }
        template <class T>
        void add(const T &v)
        {
            mix(&v, sizeof v);
        }
        void addd(double d)
        {
            if (d == 0)
                d = 0;  // -0 == +0
            mix(&d, sizeof d);
        }
        void adds(const std::string &s)
        {
            mix(s.data(), s.size());
            char z = 0;
            mix(&z, 1);
        }
    };
    inline uint64_t hstr(const std::string &s)
    {
        Hash h;
        h.adds(s);
        return h.h;
    }

    struct Failure
    {
        std::string key;     // signature matched against known_findings.json
        std::string what;    // human readable
        std::string replay;  // JSON value (object) sufficient to re-run the case
    };

    struct Report
    {
        std::string property, job, tier;
        long states = 0, transitions = 0, validated = 0, evaluations = 0;
        std::unordered_set<uint64_t> nontrivial;  // distinct non-trivial cases (hashes)
        long nontrivialCounted = 0;               // distinct by construction (enumeration indices): counted, not hashed, in very large products
        std::unordered_set<uint64_t> outcomes;    // distinct observed outcomes
        std::string rule;
        std::map<std::string, std::string> bounds;  // name -> JSON value
        bool exhaustive = true;
        std::vector<std::string> caps;      // caps hit
        std::vector<std::string> samples;   // JSON values
        std::vector<std::string> assumptions;
        std::vector<Failure> failures;
        std::map<std::string, long> failCount;  // key -> number of failing cases
        std::map<std::string, double> metrics;  // extra measured numbers
        std::chrono::steady_clock::time_point t0 = std::chrono::steady_clock::now();
        size_t maxSamples = 6, maxFailuresPerKey = 1;

        void sample(const std::string &json)
        {
            if (samples.size() < maxSamples)
                samples.push_back(json);
        }
        // record a failing case; only the first per key keeps its replay (alphabets are ordered simplest-first, so
        // the first is the shortest)
        void fail(const std::string &key, const std::string &what, const std::string &replayJson)
        {
            long &c = failCount[key];
            if (c < (long)maxFailuresPerKey)
                failures.push_back({key, what, replayJson});
            ++c;
        }
        double wall() const
        {
            return std::chrono::duration<double>(std::chrono::steady_clock::now() - t0).count();
        }
        void write(const std::string &file) const
        {
            std::string o = "{";
            o += "\"property\":" + jesc(property) + ",\"job\":" + jesc(job) + ",\"tier\":" + jesc(tier);
            o += ",\"states\":" + std::to_string(states) + ",\"transitions\":" + std::to_string(transitions);
            o += ",\"validated\":" + std::to_string(validated) + ",\"evaluations\":" + std::to_string(evaluations);
            o += ",\"distinct_nontrivial\":" + std::to_string(nontrivial.size() + nontrivialCounted);
            o += ",\"distinct_outcomes\":" + std::to_string(outcomes.size());
            o += ",\"rule\":" + jesc(rule) + ",\"exhaustive\":" + (exhaustive ? "true" : "false");
            o += ",\"caps\":" + jstrs(caps);
            o += ",\"bounds\":{";
            bool first = true;
            for (auto &b : bounds)
            {
                o += (first ? "" : ",") + jesc(b.first) + ":" + b.second;
                first = false;
            }
            o += "},\"metrics\":{";
            first = true;
            for (auto &b : metrics)
            {
                o += (first ? "" : ",") + jesc(b.first) + ":" + jnum(b.second);
                first = false;
            }
            o += "},\"samples\":[";
            for (size_t i = 0; i < samples.size(); ++i)
                o += (i ? "," : "") + samples[i];
            o += "],\"assumptions\":" + jstrs(assumptions);
            o += ",\"failures\":[";
            for (size_t i = 0; i < failures.size(); ++i)
            {
                auto &f = failures[i];
                o += (i ? "," : "");
                o += "{\"key\":" + jesc(f.key) + ",\"what\":" + jesc(f.what) + ",\"count\":" +
                     std::to_string(failCount.at(f.key)) + ",\"replay\":" + (f.replay.empty() ? "null" : f.replay) + "}";
            }
            o += "],\"wall_s\":" + jnum(wall()) + "}\n";
            FILE *f = fopen(file.c_str(), "w");
            if (!f)
            {
                perror(file.c_str());
                exit(2);
            }
            fwrite(o.data(), 1, o.size(), f);
            fclose(f);
        }
    };

    struct Args
    {
        std::string tier = "quick", job, out, replay;
        bool list = false;
        double deadline = 1e9;  // seconds of wall time this job may use
        std::chrono::steady_clock::time_point t0 = std::chrono::steady_clock::now();
        bool thorough() const
        {
            return tier == "thorough";
        }
        bool expired() const
        {
            return std::chrono::duration<double>(std::chrono::steady_clock::now() - t0).count() > deadline;
        }
    };
    inline Args parse(int argc, char **argv)
    {
        Args a;
        for (int i = 1; i < argc; ++i)
        {
            std::string s = argv[i];
            auto next = [&]() -> std::string {
                if (i + 1 >= argc)
                {
                    fprintf(stderr, "missing value for %s\n", s.c_str());
                    exit(2);
                }
                return argv[++i];
            };
            if (s == "--tier")
                a.tier = next();
            else if (s == "--job")
                a.job = next();
            else if (s == "--out")
                a.out = next();
            else if (s == "--replay")
                a.replay = next();
            else if (s == "--list")
                a.list = true;
            else if (s == "--deadline")
                a.deadline = atof(next().c_str());
            else
            {
                fprintf(stderr, "unknown argument %s\n", s.c_str());
                exit(2);
            }
        }
        return a;
    }

    // ---- a tiny JSON reader, enough for replay files written by this framework ----
    struct JV
    {
        enum K
        {
            Null,
            Bool,
            Num,
            Str,
            Arr,
            Obj
        } k = Null;
        bool b = false;
        double n = 0;
        std::string s;
        std::vector<JV> a;
        std::vector<std::pair<std::string, JV>> o;
        const JV &operator[](const std::string &key) const
        {
            static JV nul;
            for (auto &p : o)
                if (p.first == key)
                    return p.second;
            return nul;
        }
        const JV &operator[](size_t i) const
        {
            return a.at(i);
        }
        bool has(const std::string &key) const
        {
            for (auto &p : o)
                if (p.first == key)
                    return true;
            return false;
        }
        long i() const
        {
            return (long)n;
        }
        double d() const
        {
            if (k == Str)
            {
                if (s == "inf")
                    return INFINITY;
                if (s == "-inf")
                    return -INFINITY;
                if (s == "nan")
                    return NAN;
            }
            return n;
        }
    };
    struct JParser
    {
        const std::string &t;
        size_t p = 0;
        JParser(const std::string &s) : t(s)
        {
        }
        void ws()
        {
            while (p < t.size() && isspace((unsigned char)t[p]))
                ++p;
        }
        JV parse()
        {
            ws();
            JV v;
            if (p >= t.size())
                return v;
            char c = t[p];
            if (c == '{')
            {
                v.k = JV::Obj;
                ++p;
                ws();
                if (t[p] == '}')
                {
                    ++p;
                    return v;
                }
                for (;;)
                {
                    ws();
                    JV key = parse();
                    ws();
                    ++p;  // ':'
                    JV val = parse();
                    v.o.emplace_back(key.s, val);
                    ws();
                    if (t[p] == ',')
                    {
                        ++p;
                        continue;
                    }
                    ++p;
                    break;
                }
            }
            else if (c == '[')
            {
                v.k = JV::Arr;
                ++p;
                ws();
                if (t[p] == ']')
                {
                    ++p;
                    return v;
                }
                for (;;)
                {
                    v.a.push_back(parse());
                    ws();
                    if (t[p] == ',')
                    {
                        ++p;
                        continue;
                    }
                    ++p;
                    break;
                }
            }
            else if (c == '"')
            {
                v.k = JV::Str;
                ++p;
                while (p < t.size() && t[p] != '"')
                {
                    if (t[p] == '\\')
                    {
                        ++p;
                        char e = t[p];
                        if (e == 'n')
                            v.s += '\n';
                        else if (e == 't')
                            v.s += '\t';
                        else if (e == 'u')
                        {
                            v.s += (char)strtol(t.substr(p + 1, 4).c_str(), nullptr, 16);
                            p += 4;
                        }
                        else
                            v.s += e;
                        ++p;
                    }
                    else
                        v.s += t[p++];
                }
                ++p;
            }
            else if (c == 't')
            {
                v.k = JV::Bool;
                v.b = true;
                p += 4;
            }
            else if (c == 'f')
            {
                v.k = JV::Bool;
                v.b = false;
                p += 5;
            }
            else if (c == 'n')
            {
                p += 4;
            }
            else
            {
                v.k = JV::Num;
                char *e;
                v.n = strtod(t.c_str() + p, &e);
                p = e - t.c_str();
            }
            return v;
        }
    };
    inline JV readJson(const std::string &file)
    {
        FILE *f = fopen(file.c_str(), "r");
        if (!f)
        {
            perror(file.c_str());
            exit(2);
        }
        std::string s;
        char buf[65536];
        size_t n;
        while ((n = fread(buf, 1, sizeof buf, f)) > 0)
            s.append(buf, n);
        fclose(f);
        JParser p(s);
        return p.parse();
    }

    // standard main: harness supplies jobs(tier) and run(job, args, report) and replay(JV) -> true if still failing
    struct Harness
    {
        std::string property;
        std::function<std::vector<std::string>(const Args &)> jobs;
        std::function<void(const std::string &, const Args &, Report &)> run;
        std::function<bool(const JV &)> replay;
    };
    inline int main(int argc, char **argv, const Harness &h)
    {
        Args a = parse(argc, argv);
        if (a.list)
        {
            for (auto &j : h.jobs(a))
                printf("%s\n", j.c_str());
            return 0;
        }
        if (!a.replay.empty())
        {
            JV v = readJson(a.replay);
            const JV &r = v.has("replay") ? v["replay"] : v;
            // the recorded case may crash or hang: run it in a child; death of the child means "still failing"
            fflush(stdout);
            pid_t pid = fork();
            if (pid == 0)
            {
                bool still = h.replay ? h.replay(r) : false;
                fflush(stdout);
                _exit(still ? 1 : 0);
            }
            int st = 0;
            waitpid(pid, &st, 0);
            bool still = !(WIFEXITED(st) && WEXITSTATUS(st) == 0);
            if (WIFSIGNALED(st))
                printf("REPLAY: child killed by signal %d\n", WTERMSIG(st));
            printf(still ? "REPLAY: fails again\n" : "REPLAY: passes\n");
            return still ? 1 : 0;
        }
        Report r;
        r.property = h.property;
        r.job = a.job;
        r.tier = a.tier;
        h.run(a.job, a, r);
        if (a.out.empty())
        {
            r.write("/dev/stdout");
        }
        else
            r.write(a.out);
        return 0;
    }
}  // namespace vf
