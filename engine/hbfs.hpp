// hbfs.hpp — engine E2: breadth-first search over operation histories of a real object with canonical-state
// deduplication. A state is the op history reaching it; build(hist) replays it on a FRESH real object (objects are
// rarely copyable); canon(obj) dumps the private representation. All queries are evaluated in every new state.
#pragma once
#include "vf.hpp"
#include <deque>
#include <memory>
#include <unordered_map>

namespace vf
{
    // S requirements:
    //   using Obj = ...;                                        real object + reference model
    //   std::unique_ptr<Obj> make();                            fresh object
    //   std::vector<std::string> enabled(Obj&);                 ops enabled in this state (simplest first)
    //   void apply(Obj&, const std::string &op);                apply to real object AND model
    //   std::string canon(Obj&);                                canonical dump of the whole representation
    //   void check(Obj&, const std::vector<std::string>&hist, std::function<void(key,what)> fail);   all queries vs. model
    //   bool nontrivial(Obj&, const std::vector<std::string>&hist);
    //   std::string outcome(Obj&);                              observable outcome (for distinct_outcomes)
    //   std::vector<std::string> variants(Obj&, const std::string &op);   further ops to try from the same parent, decided after
    //                                                            applying op (environment answers the op actually consulted)
    //   static constexpr bool kModelInCanon;                    canon() determines the model state as well
    //   void checkTransition(Obj&, hist, fail);                 transition-level checks only (used on revisits when kModelInCanon)
    template <class S>
    struct HBFS
    {
        S &sys;
        Report &rep;
        const Args &args;
        int maxDepth = 1 << 30;
        long maxStates = 1L << 40;
        std::string replayExtra;  // JSON members (without braces) identifying the configuration, e.g. "\"cmp\":\"lt\""
        long depthReached = 0;
        bool closed = false;

        HBFS(S &s, Report &r, const Args &a) : sys(s), rep(r), args(a)
        {
        }

        std::unique_ptr<typename S::Obj> build(const std::vector<std::string> &hist)
        {
            auto o = sys.make();
            for (auto &op : hist)
                sys.apply(*o, op);
            return o;
        }
        std::string replayJson(const std::vector<std::string> &hist)
        {
            return "{" + replayExtra + (replayExtra.empty() ? "" : ",") + "\"ops\":" + jstrs(hist) + "}";
        }

        void run()
        {
            std::unordered_set<std::string> seen;
            std::deque<std::vector<std::string>> frontier;
            {
                auto o = sys.make();
                seen.insert(sys.canon(*o));
                frontier.push_back({});
                rep.states++;
                std::vector<std::string> h;
                sys.check(*o, h, [&](const std::string &k, const std::string &w) { rep.fail(k, w, replayJson(h)); });
            }
            bool cut = false, depthCut = false;
            while (!frontier.empty())
            {
                if (args.expired())
                {
                    cut = true;
                    rep.caps.push_back("deadline reached at depth " + std::to_string(frontier.front().size()));
                    break;
                }
                auto hist = frontier.front();
                frontier.pop_front();
                depthReached = std::max<long>(depthReached, hist.size());
                std::vector<std::string> ops;
                {
                    auto o = build(hist);
                    ops = sys.enabled(*o);
                }
                for (size_t opi = 0; opi < ops.size(); ++opi)
                {
                    const std::string op = ops[opi];
                    auto h2 = hist;
                    h2.push_back(op);
                    auto o = build(h2);
                    rep.transitions++;
                    rep.evaluations++;
                    // an op that consulted an enumerated environment answer (e.g. a random pivot) spawns its variants
                    for (auto &v : sys.variants(*o, op))
                        ops.push_back(v);
                    std::string k = sys.canon(*o);
                    // every transition is checked (two histories reaching the same representation may differ in the model)
                    bool failed = false;
                    auto onFail = [&](const std::string &key, const std::string &w) {
                        failed = true;
                        rep.fail(key, w, replayJson(h2));
                    };
                    // when the canonical dump determines the reference model too (S::kModelInCanon), a revisited state
                    // needs only the transition-level checks (results returned by the op itself)
                    if (S::kModelInCanon && seen.count(k))
                        sys.checkTransition(*o, h2, onFail);
                    else
                        sys.check(*o, h2, onFail);
                    rep.outcomes.insert(hstr(sys.outcome(*o)));
                    if (sys.nontrivial(*o, h2))
                        rep.nontrivial.insert(hstr(k));
                    if (failed)
                        continue;  // do not expand beyond a violated state: everything after it is garbage
                    if (seen.count(k))
                        continue;
                    if ((long)seen.size() >= maxStates)
                    {
                        if (!cut)
                            rep.caps.push_back("state cap " + std::to_string(maxStates));
                        cut = true;
                        continue;
                    }
                    seen.insert(k);
                    rep.states++;
                    // canon-on-replay: the same history on another fresh object must give the same representation
                    {
                        auto o2 = build(h2);
                        if (sys.canon(*o2) != k)
                        {
                            fprintf(stderr, "INTERNAL: canon differs on replay (uninitialised field or hidden state)\n");
                            exit(2);
                        }
                        rep.validated++;
                    }
                    if (rep.samples.size() < rep.maxSamples && h2.size() >= 3 && (rep.states % 97) == 0)
                        rep.sample(jstrs(h2));
                    if ((int)h2.size() < maxDepth)
                        frontier.push_back(h2);
                    else
                        depthCut = true;  // the stated depth bound left states unexpanded: complete for the bound, no closure
                }
            }
            closed = !cut && !depthCut;
            if (cut)
                rep.exhaustive = false;
        }
    };
}  // namespace vf
