// vsrt — runtime of engine E4 (thread-schedule explorer). UNINSTRUMENTED translation unit, built as libvsrt.so.
//  * serialising scheduler: exactly one thread of the process runs; the others park on raw futex words
//  * interposes pthread_create/join/mutex_*/once, __cxa_guard_*, free, nanosleep/clock_nanosleep/clock_gettime, sched_yield
//  * implements the __tsan_* ABI that -fsanitize=thread instrumentation calls: every load/store/atomic of the instrumented
//    library arrives here; a vector-clock happens-before monitor runs in every explored schedule; happens-before edges come
//    ONLY from the program's own synchronisation (mutexes, atomics, once, guards, create/join), never from the scheduler
//  * scheduling points: sync operations, atomics issued from call sites known to touch shared objects, plain accesses from
//    call sites found racy (both sets are frozen for a round and handed in by the explorer), sleeps (virtual time)
// Rules (each cost a failed spike run, see DESIGN.md appendix B): no function-local statics in interposers; clear the
// in-runtime flag when a new thread starts; identify scheduling points by return address, never by object address.
#include <pthread.h>
#include <time.h>
#include <dlfcn.h>
#include <unistd.h>
#include <sched.h>
#include <sys/syscall.h>
#include <linux/futex.h>
#include <malloc.h>
#include <atomic>
#include <vector>
#include <map>
#include <unordered_map>
#include <set>
#include <cstdio>
#include <cstdlib>
#include <cstring>
#include <cstdint>

#define MAXT 8
extern "C" void __libc_free(void *);
extern "C" void *__libc_realloc(void *, size_t);

namespace vs
{
    struct VC
    {
        uint32_t c[MAXT];
        VC()
        {
            memset(c, 0, sizeof c);
        }
        void join(const VC &o)
        {
            for (int i = 0; i < MAXT; ++i)
                if (o.c[i] > c[i])
                    c[i] = o.c[i];
        }
    };
    struct Th
    {
        int id = 0;
        std::atomic<int> go{0};
        std::atomic<int> reap{0};  // set by the joiner: only then does the finished thread really exit (deterministic arena / stack reuse)
        bool finished = false;
        pthread_t real{};
        void *(*fn)(void *) = nullptr;
        void *arg = nullptr;
        pthread_mutex_t *wm = nullptr;  // mutex it waits for
        int joining = -1;
        long long wakeAt = 0;           // virtual wake-up time (ns), 0 = not sleeping
        uintptr_t waitAddr = 0;  // once object / static guard whose initialisation (by another thread) it waits for
        VC vc;
    };
    // shadow cell of one 8-byte granule; byte masks keep distinct variables that share a granule apart (no false sharing
    // reports); a newer record of the same thread replaces an older one, which can only lose reports, never invent them
    struct Cell
    {
        int wt = -1;
        uint32_t wc = 0;
        unsigned char wmask = 0;
        uint32_t rc[MAXT] = {0};
        unsigned char rmask[MAXT] = {0};
        const void *wpc = nullptr;
        const void *rpc[MAXT] = {nullptr};
    };
    struct Race
    {
        uintptr_t addr;
        const void *pc1, *pc2;
        bool w1, w2;
    };

    static std::vector<Th *> ths;
    static bool active = false, inrt = false;
    static std::vector<int> choices;
    static size_t pos = 0;
    static std::vector<int> trace, nen;
    static std::vector<char> preemptible;
    static std::vector<int> running;  // id of the thread that arrived at the point
    static std::map<pthread_mutex_t *, int> owner;
    static std::map<uintptr_t, int> busyAddr;  // once object / guard being initialised -> id of the initialising thread
    static std::map<uintptr_t, VC> syncvc;
    static thread_local Th *self = nullptr;
    static std::unordered_map<uintptr_t, Cell> shadow;
    static std::vector<Race> races;
    static std::set<std::pair<const void *, const void *>> seenpairs;
    static std::set<uintptr_t> schedPCs;       // plain accesses from these call sites are scheduling points (racy sites)
    static std::set<uintptr_t> sharedAtomicPCs;  // atomic operations from these call sites are scheduling points
    static std::set<uintptr_t> newSharedAtomicPCs;
    static std::map<uintptr_t, int> atomicFirst;
    static std::map<uintptr_t, std::set<uintptr_t>> atomicPCs;
    static long naccess = 0;
    static long long vnow = 1700000000LL * 1000000000LL, vtick = 1000, vstart = 1700000000LL * 1000000000LL;
    static long long horizonNs = 600LL * 1000000000LL;  // virtual seconds an execution may take
    static long maxPoints = 200000;
    static void (*fatalHook)(const char *) = nullptr;
    static void (*threadHook)(int) = nullptr;

    static int (*real_create)(pthread_t *, const pthread_attr_t *, void *(*)(void *), void *) = nullptr;
    static int (*real_join)(pthread_t, void **) = nullptr;
    static int (*real_mlock)(pthread_mutex_t *) = nullptr;
    static int (*real_mtry)(pthread_mutex_t *) = nullptr;
    static int (*real_munlock)(pthread_mutex_t *) = nullptr;
    static int (*real_once)(pthread_once_t *, void (*)(void)) = nullptr;
    static int (*real_cga)(long long *) = nullptr;
    static void (*real_cgr)(long long *) = nullptr;
    static void resolve()
    {
        if (real_create)
            return;
        real_create = (decltype(real_create))dlsym(RTLD_NEXT, "pthread_create");
        real_join = (decltype(real_join))dlsym(RTLD_NEXT, "pthread_join");
        real_mlock = (decltype(real_mlock))dlsym(RTLD_NEXT, "pthread_mutex_lock");
        real_mtry = (decltype(real_mtry))dlsym(RTLD_NEXT, "pthread_mutex_trylock");
        real_munlock = (decltype(real_munlock))dlsym(RTLD_NEXT, "pthread_mutex_unlock");
        real_once = (decltype(real_once))dlsym(RTLD_NEXT, "pthread_once");
        real_cga = (decltype(real_cga))dlsym(RTLD_NEXT, "__cxa_guard_acquire");
        real_cgr = (decltype(real_cgr))dlsym(RTLD_NEXT, "__cxa_guard_release");
    }

    static void fwait(std::atomic<int> *a)
    {
        while (a->load(std::memory_order_acquire) == 0)
            syscall(SYS_futex, (int *)a, FUTEX_WAIT_PRIVATE, 0, nullptr, nullptr, 0);
    }
    static void fwake(std::atomic<int> *a)
    {
        a->store(1, std::memory_order_release);
        syscall(SYS_futex, (int *)a, FUTEX_WAKE_PRIVATE, 1, nullptr, nullptr, 0);
    }
    static void fatal(const char *kind)
    {
        if (fatalHook)
            fatalHook(kind);
        fprintf(stderr, "VSRT %s\n", kind);
        _exit(3);
    }
    static bool enabled(Th *t)
    {
        if (t->finished)
            return false;
        if (t->wakeAt > vnow)
            return false;
        if (t->wm)
        {
            auto it = owner.find(t->wm);
            if (it != owner.end() && it->second >= 0 && it->second != t->id)
                return false;
        }
        if (t->joining >= 0 && !ths[t->joining]->finished)
            return false;
        if (t->waitAddr)
        {
            auto it = busyAddr.find(t->waitAddr);
            if (it != busyAddr.end() && it->second != t->id)
                return false;
        }
        return true;
    }
    static void collect(Th *me, bool meAlive, std::vector<int> &en)
    {
        en.clear();
        if (meAlive && enabled(me))
            en.push_back(me->id);
        for (auto *t : ths)
            if (t != me && enabled(t))
                en.push_back(t->id);
    }
    // the scheduling decision; the caller is inside the runtime (inrt == true)
    static void pick(Th *me, bool meAlive)
    {
        std::vector<int> en;
        collect(me, meAlive, en);
        if (en.empty())
        {
            // discrete-event time: jump to the earliest wake-up
            long long mw = -1;
            for (auto *t : ths)
                if (!t->finished && t->wakeAt > vnow && (mw < 0 || t->wakeAt < mw))
                    mw = t->wakeAt;
            if (mw >= 0)
            {
                vnow = mw;
                if (vnow - vstart > horizonNs)
                    fatal("LIVELOCK: only sleepers remain beyond the virtual-time horizon");
                collect(me, meAlive, en);
            }
        }
        if (en.empty())
            fatal("DEADLOCK: no enabled thread");
        if ((long)pos >= maxPoints)
            fatal("STEP-HORIZON: too many scheduling points");
        int c = 0;
        if (pos < choices.size())
            c = choices[pos];
        if (c >= (int)en.size())
        {
            fprintf(stderr, "VSRT replay divergence at %zu: choice %d of %zu\n", pos, c, en.size());
            _exit(4);
        }
        trace.push_back(c);
        nen.push_back((int)en.size());
        preemptible.push_back(meAlive && enabled(me));
        running.push_back(me->id);
        ++pos;
        int nx = en[c];
        if (meAlive && nx == me->id)
            return;
        Th *n = ths[nx];
        if (meAlive)
        {
            me->go.store(0);
            fwake(&n->go);
            fwait(&me->go);
        }
        else
            fwake(&n->go);
    }
    static void schedpoint()
    {
        if (!active || !self || inrt)
            return;
        inrt = true;
        pick(self, true);
        inrt = false;
    }
    static void report(uintptr_t g, const void *pc1, bool w1, const void *pc2, bool w2)
    {
        auto k = std::make_pair(std::min(pc1, pc2), std::max(pc1, pc2));
        if (seenpairs.insert(k).second)
            races.push_back({g << 3, pc1, pc2, w1, w2});
    }
    static inline void access(void *addr, bool write, const void *pc, unsigned size = 8)
    {
        if (!active || !self || inrt)
            return;
        inrt = true;
        ++naccess;
        uintptr_t g = (uintptr_t)addr >> 3;
        unsigned off = (uintptr_t)addr & 7;
        unsigned char mask = (unsigned char)(((size >= 8 ? 0xFFu : ((1u << size) - 1u)) << off) & 0xFFu);
        Th *t = self;
        if (!schedPCs.empty() && schedPCs.count((uintptr_t)pc))
            pick(t, true);
        Cell &c = shadow[g];
        int me = t->id;
        if (c.wt >= 0 && c.wt != me && (c.wmask & mask) && c.wc > t->vc.c[c.wt])
            report(g, c.wpc, true, pc, write);
        if (write)
        {
            for (int u = 0; u < MAXT; ++u)
                if (u != me && (c.rmask[u] & mask) && c.rc[u] > t->vc.c[u])
                    report(g, c.rpc[u], false, pc, true);
            if (c.wt == me && c.wc == t->vc.c[me])
                c.wmask |= mask;  // same thread, same epoch: accumulate
            else
                c.wmask = mask;
            c.wt = me;
            c.wc = t->vc.c[me];
            c.wpc = pc;
        }
        else
        {
            if (c.rc[me] == t->vc.c[me])
                c.rmask[me] |= mask;
            else
                c.rmask[me] = mask;
            c.rc[me] = t->vc.c[me];
            c.rpc[me] = pc;
        }
        inrt = false;
    }
    static void acquire(uintptr_t a)
    {
        auto it = syncvc.find(a);
        if (it != syncvc.end())
            self->vc.join(it->second);
    }
    static void release(uintptr_t a)
    {
        syncvc[a].join(self->vc);
        self->vc.c[self->id]++;
    }
    static void *tramp(void *a)
    {
        Th *t = (Th *)a;
        self = t;
        fwait(&t->go);
        inrt = false;  // a freshly started thread is outside the runtime
        if (threadHook)
            threadHook(t->id);
        void *r = t->fn(t->arg);
        inrt = true;
        t->finished = true;
        t->vc.c[t->id]++;
        self = nullptr;  // from here on this thread is invisible to the runtime: its exit path passes straight through every interposer
        pick(t, false);
        // note: inrt stays true for the thread that was woken; it clears it when it leaves its own pick()
        // The real exit (TLS destructors, malloc arena release, stack caching) is deferred until a joiner asks for it, so that it
        // happens entirely inside the joiner's pthread_join while no other thread runs: which arena / stack a later thread
        // reuses must not depend on how far this thread's exit got in real time (heap addresses would differ between runs).
        fwait(&t->reap);
        return r;
    }
}  // namespace vs
using namespace vs;

extern "C"
{
    int pthread_create(pthread_t *th, const pthread_attr_t *at, void *(*fn)(void *), void *arg)
    {
        resolve();
        if (!active || !self)
            return real_create(th, at, fn, arg);
        inrt = true;
        Th *t = new Th;
        t->id = (int)ths.size();
        if (t->id >= MAXT)
            fatal("TOO-MANY-THREADS");
        t->fn = fn;
        t->arg = arg;
        t->vc = self->vc;
        t->vc.c[t->id] = 1;
        self->vc.c[self->id]++;
        ths.push_back(t);
        int r = real_create(th, at, tramp, t);
        t->real = *th;
        inrt = false;
        schedpoint();
        return r;
    }
    int pthread_join(pthread_t th, void **ret)
    {
        resolve();
        if (!active || !self)
            return real_join(th, ret);
        int id = -1;
        for (auto *t : ths)
            if (t->id > 0 && pthread_equal(t->real, th))
                id = t->id;
        if (id >= 0)
        {
            self->joining = id;
            schedpoint();
            self->joining = -1;
            inrt = true;
            self->vc.join(ths[id]->vc);
            inrt = false;
            fwake(&ths[id]->reap);
        }
        return real_join(th, ret);
    }
    int pthread_mutex_lock(pthread_mutex_t *m)
    {
        resolve();
        if (!active || !self || inrt)
            return real_mlock(m);
        self->wm = m;
        schedpoint();
        self->wm = nullptr;
        inrt = true;
        owner[m] = self->id;
        acquire((uintptr_t)m);
        inrt = false;
        return real_mlock(m);
    }
    int pthread_mutex_trylock(pthread_mutex_t *m)
    {
        resolve();
        if (!active || !self || inrt)
            return real_mtry(m);
        schedpoint();
        inrt = true;
        auto it = owner.find(m);
        if (it != owner.end() && it->second >= 0 && it->second != self->id)
        {
            inrt = false;
            return 16;  // EBUSY
        }
        owner[m] = self->id;
        acquire((uintptr_t)m);
        inrt = false;
        return real_mtry(m);
    }
    int pthread_mutex_unlock(pthread_mutex_t *m)
    {
        resolve();
        if (!active || !self || inrt)
            return real_munlock(m);
        inrt = true;
        release((uintptr_t)m);
        int r = real_munlock(m);
        owner[m] = -1;
        inrt = false;
        schedpoint();
        return r;
    }
    // pthread_once / std::call_once: the caller that runs the initialiser releases, every returning caller acquires;
    // callers arriving during initialisation are disabled like mutex waiters (they must not block inside glibc while
    // they hold the only running slot)
    int pthread_once(pthread_once_t *o, void (*fn)(void))
    {
        resolve();
        if (!active || !self || inrt)
            return real_once(o, fn);
        schedpoint();
        uintptr_t k = (uintptr_t)o;
        inrt = true;
        bool done = (*(volatile int *)o & 2) != 0;  // glibc: __PTHREAD_ONCE_DONE
        auto it = busyAddr.find(k);
        if (!done && it != busyAddr.end() && it->second != self->id)
        {
            inrt = false;
            self->waitAddr = k;
            schedpoint();
            self->waitAddr = 0;
            inrt = true;
            done = true;
        }
        if (done)
        {
            acquire(k);
            inrt = false;
            return real_once(o, fn);  // already done: returns at once
        }
        busyAddr[k] = self->id;
        inrt = false;
        int r = real_once(o, fn);  // runs fn in this thread; other callers are held back by busyAddr
        inrt = true;
        release(k);
        busyAddr.erase(k);
        inrt = false;
        schedpoint();
        return r;
    }
    int __cxa_guard_acquire(long long *g)
    {
        resolve();
        if (!active || !self || inrt)
            return real_cga(g);
        uintptr_t k = (uintptr_t)g;
        if (*(volatile char *)g == 0)
        {
            // not yet initialised: if another thread is inside the initialiser, wait in the scheduler, not in libstdc++
            inrt = true;
            auto it = busyAddr.find(k);
            bool wait = it != busyAddr.end() && it->second != self->id;
            inrt = false;
            if (wait)
            {
                self->waitAddr = k;
                schedpoint();
                self->waitAddr = 0;
            }
        }
        int r = real_cga(g);
        inrt = true;
        if (r)
            busyAddr[k] = self->id;  // this thread runs the initialiser
        acquire(k);
        inrt = false;
        return r;
    }
    void __cxa_guard_release(long long *g)
    {
        resolve();
        if (active && self && !inrt)
        {
            inrt = true;
            release((uintptr_t)g);
            busyAddr.erase((uintptr_t)g);
            inrt = false;
        }
        real_cgr(g);
    }
    void __cxa_guard_abort(long long *g)
    {
        if (active && self && !inrt)
        {
            inrt = true;
            busyAddr.erase((uintptr_t)g);
            inrt = false;
        }
        auto real = (void (*)(long long *))dlsym(RTLD_NEXT, "__cxa_guard_abort");
        real(g);
    }
    void *realloc(void *p, size_t n)
    {
        if (p && active && self && !inrt)
        {
            inrt = true;
            size_t m = malloc_usable_size(p);
            if (m < (1u << 22))
                for (uintptr_t g = (uintptr_t)p >> 3; g <= ((uintptr_t)p + m) >> 3; ++g)
                    shadow.erase(g);
            inrt = false;
        }
        return __libc_realloc(p, n);
    }
    void free(void *p)
    {
        if (p && active && self && !inrt)
        {
            inrt = true;
            size_t n = malloc_usable_size(p);
            if (n < (1u << 22))
                for (uintptr_t g = (uintptr_t)p >> 3; g <= ((uintptr_t)p + n) >> 3; ++g)
                    shadow.erase(g);
            inrt = false;
        }
        __libc_free(p);
    }
    // ---- virtual time ----
    int clock_gettime(clockid_t id, struct timespec *ts)
    {
        if (!active || !self)
            return (int)syscall(SYS_clock_gettime, id, ts);
        vnow += vtick;
        ts->tv_sec = vnow / 1000000000LL;
        ts->tv_nsec = vnow % 1000000000LL;
        return 0;
    }
    static int vsleep(long long ns)
    {
        if (ns < 1)
            ns = 1;
        self->wakeAt = vnow + ns;
        schedpoint();
        self->wakeAt = 0;
        return 0;
    }
    int nanosleep(const struct timespec *req, struct timespec *rem)
    {
        if (!active || !self || inrt)
            return (int)syscall(SYS_nanosleep, req, rem);
        return vsleep(req->tv_sec * 1000000000LL + req->tv_nsec);
    }
    int clock_nanosleep(clockid_t c, int flags, const struct timespec *req, struct timespec *rem)
    {
        if (!active || !self || inrt)
        {
            long r = syscall(SYS_clock_nanosleep, c, flags, req, rem);
            return r == 0 ? 0 : (int)-r;
        }
        long long ns = req->tv_sec * 1000000000LL + req->tv_nsec;
        if (flags & TIMER_ABSTIME)
            ns -= vnow;
        return vsleep(ns);
    }
    int sched_yield(void)
    {
        if (active && self && !inrt)
            vsleep(1);
        return 0;
    }

    // ---- tsan ABI ----
    void __tsan_init()
    {
    }
    void __tsan_func_entry(void *)
    {
    }
    void __tsan_func_exit()
    {
    }
static void rangeAccess(char *a, unsigned long n, bool w, const void *pc);
#define RW(n)                                                        \
    void __tsan_read##n(void *a)                                     \
    {                                                                \
        access(a, false, __builtin_return_address(0), n);            \
    }                                                                \
    void __tsan_write##n(void *a)                                    \
    {                                                                \
        access(a, true, __builtin_return_address(0), n);             \
    }                                                                \
    void __tsan_unaligned_read##n(void *a)                           \
    {                                                                \
        access(a, false, __builtin_return_address(0), n);            \
    }                                                                \
    void __tsan_unaligned_write##n(void *a)                          \
    {                                                                \
        access(a, true, __builtin_return_address(0), n);             \
    }
    RW(1) RW(2) RW(4) RW(8)
    void __tsan_read16(void *a)
    {
        rangeAccess((char *)a, 16, false, __builtin_return_address(0));
    }
    void __tsan_write16(void *a)
    {
        rangeAccess((char *)a, 16, true, __builtin_return_address(0));
    }
    void __tsan_unaligned_read16(void *a)
    {
        rangeAccess((char *)a, 16, false, __builtin_return_address(0));
    }
    void __tsan_unaligned_write16(void *a)
    {
        rangeAccess((char *)a, 16, true, __builtin_return_address(0));
    }
    static void rangeAccess(char *a, unsigned long n, bool w, const void *pc)
    {
        while (n > 0)
        {
            unsigned off = (uintptr_t)a & 7, chunk = (unsigned)std::min<unsigned long>(8 - off, n);
            access(a, w, pc, chunk);
            a += chunk;
            n -= chunk;
        }
    }
    void __tsan_read_range(void *a, unsigned long n)
    {
        rangeAccess((char *)a, n, false, __builtin_return_address(0));
    }
    void __tsan_write_range(void *a, unsigned long n)
    {
        rangeAccess((char *)a, n, true, __builtin_return_address(0));
    }
    void __tsan_vptr_update(void **a, void *)
    {
        access(a, true, __builtin_return_address(0));
    }
    void __tsan_vptr_read(void **a)
    {
        access(a, false, __builtin_return_address(0));
    }
    static void atomicPoint(const volatile void *a, const void *pcv)
    {
        if (!active || !self || inrt)
            return;
        inrt = true;
        uintptr_t k = (uintptr_t)a, pc = (uintptr_t)pcv;
        atomicPCs[k].insert(pc);
        auto it = atomicFirst.find(k);
        if (it == atomicFirst.end())
            atomicFirst[k] = self->id;
        else if (it->second != self->id)
            for (auto p : atomicPCs[k])
                if (!sharedAtomicPCs.count(p))
                    newSharedAtomicPCs.insert(p);
        bool sp = sharedAtomicPCs.count(pc) > 0;
        inrt = false;
        if (sp)
            schedpoint();
    }
#define ACQ(a)                      \
    if (active && self && !inrt)    \
    {                               \
        inrt = true;                \
        acquire((uintptr_t)a);      \
        inrt = false;               \
    }
#define REL(a)                      \
    if (active && self && !inrt)    \
    {                               \
        inrt = true;                \
        release((uintptr_t)a);      \
        inrt = false;               \
    }
#define AT(bits, T)                                                                                            \
    T __tsan_atomic##bits##_load(const volatile T *a, int)                                                     \
    {                                                                                                          \
        atomicPoint(a, __builtin_return_address(0));                                                           \
        T v = __atomic_load_n(a, __ATOMIC_SEQ_CST);                                                            \
        ACQ(a);                                                                                                \
        return v;                                                                                              \
    }                                                                                                          \
    void __tsan_atomic##bits##_store(volatile T *a, T v, int)                                                  \
    {                                                                                                          \
        atomicPoint(a, __builtin_return_address(0));                                                           \
        REL(a);                                                                                                \
        __atomic_store_n(a, v, __ATOMIC_SEQ_CST);                                                              \
    }                                                                                                          \
    T __tsan_atomic##bits##_exchange(volatile T *a, T v, int)                                                  \
    {                                                                                                          \
        atomicPoint(a, __builtin_return_address(0));                                                           \
        ACQ(a);                                                                                                \
        REL(a);                                                                                                \
        return __atomic_exchange_n(a, v, __ATOMIC_SEQ_CST);                                                    \
    }                                                                                                          \
    T __tsan_atomic##bits##_fetch_add(volatile T *a, T v, int)                                                 \
    {                                                                                                          \
        atomicPoint(a, __builtin_return_address(0));                                                           \
        ACQ(a);                                                                                                \
        REL(a);                                                                                                \
        return __atomic_fetch_add(a, v, __ATOMIC_SEQ_CST);                                                     \
    }                                                                                                          \
    T __tsan_atomic##bits##_fetch_sub(volatile T *a, T v, int)                                                 \
    {                                                                                                          \
        atomicPoint(a, __builtin_return_address(0));                                                           \
        ACQ(a);                                                                                                \
        REL(a);                                                                                                \
        return __atomic_fetch_sub(a, v, __ATOMIC_SEQ_CST);                                                     \
    }                                                                                                          \
    T __tsan_atomic##bits##_fetch_and(volatile T *a, T v, int)                                                 \
    {                                                                                                          \
        atomicPoint(a, __builtin_return_address(0));                                                           \
        ACQ(a);                                                                                                \
        REL(a);                                                                                                \
        return __atomic_fetch_and(a, v, __ATOMIC_SEQ_CST);                                                     \
    }                                                                                                          \
    T __tsan_atomic##bits##_fetch_or(volatile T *a, T v, int)                                                  \
    {                                                                                                          \
        atomicPoint(a, __builtin_return_address(0));                                                           \
        ACQ(a);                                                                                                \
        REL(a);                                                                                                \
        return __atomic_fetch_or(a, v, __ATOMIC_SEQ_CST);                                                      \
    }                                                                                                          \
    T __tsan_atomic##bits##_fetch_xor(volatile T *a, T v, int)                                                 \
    {                                                                                                          \
        atomicPoint(a, __builtin_return_address(0));                                                           \
        ACQ(a);                                                                                                \
        REL(a);                                                                                                \
        return __atomic_fetch_xor(a, v, __ATOMIC_SEQ_CST);                                                     \
    }                                                                                                          \
    T __tsan_atomic##bits##_fetch_nand(volatile T *a, T v, int)                                                \
    {                                                                                                          \
        atomicPoint(a, __builtin_return_address(0));                                                           \
        ACQ(a);                                                                                                \
        REL(a);                                                                                                \
        return __atomic_fetch_nand(a, v, __ATOMIC_SEQ_CST);                                                    \
    }                                                                                                          \
    int __tsan_atomic##bits##_compare_exchange_strong(volatile T *a, T *e, T d, int, int)                      \
    {                                                                                                          \
        atomicPoint(a, __builtin_return_address(0));                                                           \
        ACQ(a);                                                                                                \
        REL(a);                                                                                                \
        return __atomic_compare_exchange_n(a, e, d, false, __ATOMIC_SEQ_CST, __ATOMIC_SEQ_CST);                \
    }                                                                                                          \
    int __tsan_atomic##bits##_compare_exchange_weak(volatile T *a, T *e, T d, int, int)                        \
    {                                                                                                          \
        atomicPoint(a, __builtin_return_address(0));                                                           \
        ACQ(a);                                                                                                \
        REL(a);                                                                                                \
        return __atomic_compare_exchange_n(a, e, d, false, __ATOMIC_SEQ_CST, __ATOMIC_SEQ_CST);                \
    }                                                                                                          \
    T __tsan_atomic##bits##_compare_exchange_val(volatile T *a, T e, T d, int, int)                            \
    {                                                                                                          \
        atomicPoint(a, __builtin_return_address(0));                                                           \
        ACQ(a);                                                                                                \
        REL(a);                                                                                                \
        __atomic_compare_exchange_n(a, &e, d, false, __ATOMIC_SEQ_CST, __ATOMIC_SEQ_CST);                      \
        return e;                                                                                              \
    }
    AT(8, unsigned char) AT(16, unsigned short) AT(32, unsigned int) AT(64, unsigned long)
    void __tsan_atomic_thread_fence(int)
    {
    }
    void __tsan_atomic_signal_fence(int)
    {
    }

    // ---- control API for the explorer ----
    void vs_config(const unsigned long *schedPc, int nSched, const unsigned long *atomicPc, int nAtomic, long long horizon_ns, long max_points)
    {
        schedPCs.clear();
        sharedAtomicPCs.clear();
        for (int i = 0; i < nSched; ++i)
            schedPCs.insert(schedPc[i]);
        for (int i = 0; i < nAtomic; ++i)
            sharedAtomicPCs.insert(atomicPc[i]);
        if (horizon_ns > 0)
            horizonNs = horizon_ns;
        if (max_points > 0)
            maxPoints = max_points;
    }
    void vs_set_hooks(void (*fatal_hook)(const char *), void (*thread_hook)(int))
    {
        fatalHook = fatal_hook;
        threadHook = thread_hook;
    }
    void vs_begin(const int *ch, int n)
    {
        resolve();
        choices.assign(ch, ch + n);
        pos = 0;
        Th *t = new Th;
        t->id = 0;
        t->vc.c[0] = 1;
        ths.push_back(t);
        self = t;
        naccess = 0;
        active = true;
        inrt = false;
    }
    // stops scheduling; returns number of scheduling points
    int vs_end()
    {
        active = false;
        return (int)trace.size();
    }
    int vs_point(int i, int *choice, int *nenabled, int *preempt, int *thread)
    {
        if (i < 0 || i >= (int)trace.size())
            return 0;
        *choice = trace[i];
        *nenabled = nen[i];
        *preempt = preemptible[i];
        *thread = running[i];
        return 1;
    }
    int vs_nraces()
    {
        return (int)races.size();
    }
    static const char *symOf(const void *pc, char *buf, int cap)
    {
        Dl_info a;
        if (dladdr(pc, &a) && a.dli_sname)
            return a.dli_sname;
        if (dladdr(pc, &a) && a.dli_fname)
        {
            const char *b = strrchr(a.dli_fname, '/');
            snprintf(buf, cap, "%s+0x%lx", b ? b + 1 : a.dli_fname, (unsigned long)((const char *)pc - (const char *)a.dli_fbase));
            return buf;
        }
        snprintf(buf, cap, "?+%p", pc);
        return buf;
    }
    // race i: function names (mangled) and access kinds; pcs as integers (stable across forked children)
    void vs_race(int i, char *f1, char *f2, int cap, int *w1, int *w2, unsigned long *pc1, unsigned long *pc2)
    {
        Race &r = races[i];
        char b1[256], b2[256];
        snprintf(f1, cap, "%s", symOf(r.pc1, b1, sizeof b1));
        snprintf(f2, cap, "%s", symOf(r.pc2, b2, sizeof b2));
        *w1 = r.w1;
        *w2 = r.w2;
        *pc1 = (unsigned long)r.pc1;
        *pc2 = (unsigned long)r.pc2;
    }
    int vs_new_shared_atomics(unsigned long *out, int cap)
    {
        int n = 0;
        for (auto p : newSharedAtomicPCs)
            if (n < cap)
                out[n++] = p;
        return n;
    }
    long vs_naccess()
    {
        return naccess;
    }
    long long vs_now_ns()
    {
        return vnow;
    }
    long long vs_elapsed_ns()
    {
        return vnow - vstart;
    }
    int vs_self()
    {
        return self ? self->id : -1;
    }
}
