// asanhook.hpp — makes AddressSanitizer part of the oracle: errors are counted, execution continues.
// (-fsanitize-recover=address; in recover mode ASan reports a given faulting PC only once per process, so a count > 0
// attributes at least the FIRST failing case exactly; later cases at the same PC are found again on replay.)
#pragma once
#include <atomic>
namespace vf
{
    inline std::atomic<long> &asanErrorCount()
    {
        static std::atomic<long> n{0};
        return n;
    }
}
extern "C" void __asan_on_error()
{
    ++vf::asanErrorCount();
}
extern "C" const char *__asan_default_options()
{
    return "halt_on_error=0:detect_leaks=0:abort_on_error=0:print_summary=0:detect_odr_violation=0:"
           "detect_container_overflow=1:allocator_may_return_null=1:handle_segv=0:hard_rss_limit_mb=8000:quarantine_size_mb=16:malloc_context_size=2";
}
