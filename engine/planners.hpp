// planners.hpp — table of geometric planners with the per-planner facts the oracles need.
#pragma once
#include <ompl/base/SpaceInformation.h>
#include <ompl/geometric/planners/rrt/RRT.h>
#include <ompl/geometric/planners/rrt/RRTConnect.h>
#include <ompl/geometric/planners/rrt/RRTstar.h>
#include <ompl/geometric/planners/rrt/InformedRRTstar.h>
#include <ompl/geometric/planners/rrt/SORRTstar.h>
#include <ompl/geometric/planners/rrt/RRTsharp.h>
#include <ompl/geometric/planners/rrt/RRTXstatic.h>
#include <ompl/geometric/planners/rrt/LazyRRT.h>
#include <ompl/geometric/planners/rrt/TRRT.h>
#include <ompl/geometric/planners/rrt/BiTRRT.h>
#include <ompl/geometric/planners/rrt/LBTRRT.h>
#include <ompl/geometric/planners/rrt/LazyLBTRRT.h>
#include <ompl/geometric/planners/sbl/SBL.h>
#include <ompl/geometric/planners/est/EST.h>
#include <ompl/geometric/planners/est/BiEST.h>
#include <ompl/geometric/planners/est/ProjEST.h>
#include <ompl/geometric/planners/kpiece/KPIECE1.h>
#include <ompl/geometric/planners/kpiece/BKPIECE1.h>
#include <ompl/geometric/planners/kpiece/LBKPIECE1.h>
#include <ompl/geometric/planners/pdst/PDST.h>
#include <ompl/geometric/planners/stride/STRIDE.h>
#include <ompl/geometric/planners/prm/PRM.h>
#include <ompl/geometric/planners/prm/PRMstar.h>
#include <ompl/geometric/planners/prm/LazyPRM.h>
#include <ompl/geometric/planners/prm/LazyPRMstar.h>
#include <ompl/geometric/planners/prm/SPARS.h>
#include <ompl/geometric/planners/prm/SPARStwo.h>
#include <ompl/geometric/planners/fmt/FMT.h>
#include <ompl/geometric/planners/fmt/BFMT.h>
#include <ompl/geometric/planners/sst/SST.h>
#include <ompl/geometric/planners/rlrt/RLRT.h>
#include <ompl/geometric/planners/rlrt/BiRLRT.h>
#include <ompl/geometric/planners/informedtrees/BITstar.h>
#include <ompl/geometric/planners/informedtrees/ABITstar.h>
#include <ompl/geometric/planners/informedtrees/AITstar.h>
#include <ompl/geometric/planners/informedtrees/EITstar.h>
#include <ompl/geometric/planners/informedtrees/EIRMstar.h>
#include <ompl/geometric/planners/rrt/VFRRT.h>
#include <ompl/geometric/planners/rrt/TSRRT.h>
#include <ompl/geometric/planners/xxl/XXL.h>
#include <ompl/geometric/planners/xxl/XXLPositionDecomposition.h>
#include <ompl/util/RandomNumbers.h>
#include <ompl/multilevel/planners/qrrt/QRRT.h>
#include <ompl/multilevel/planners/qrrt/QRRTStar.h>
#include <ompl/multilevel/planners/qmp/QMP.h>
#include <ompl/multilevel/planners/qmp/QMPStar.h>
#include <ompl/base/spaces/SE2StateSpace.h>
#include <ompl/base/spaces/RealVectorStateSpace.h>
#include <string>
#include <vector>

namespace vpl
{
    namespace ob = ompl::base;
    namespace og = ompl::geometric;

    enum Flags : unsigned
    {
        EXACT_EDGES = 1,     // path vertices are exactly the validated tree/roadmap edges: every pair passes checkMotion again
        TWO_THREADED = 2,    // always spawns a solution-checking thread: driven under the scheduler only (C19)
        OPTIMIZING = 4,      // listed in C04
        COST_EXACT = 8,      // stored cost == recomputed path cost (no deferred propagation)
        IGNORES_SAMPLER = 16, // informed planners: steered through U01/UNIT instead of the state-sampler seam
        MULTILEVEL = 32,      // multilevel (bundle-space) planners: two levels R^2 <- SE(2) on plain SE(2) problems, one level otherwise
        VARIANT = 64          // a planner of the table with non-default options (option branches of solve()); reduced configuration sets
    };

    template <class P>
    ob::PlannerPtr mk(const ob::SpaceInformationPtr &si)
    {
        return std::make_shared<P>(si);
    }
    inline ob::PlannerPtr mkFMT(const ob::SpaceInformationPtr &si)
    {
        auto p = std::make_shared<og::FMT>(si);
        p->setNumSamples(24);
        return p;
    }
    inline ob::PlannerPtr mkBFMT(const ob::SpaceInformationPtr &si)
    {
        auto p = std::make_shared<og::BFMT>(si);
        p->setNumSamples(24);
        return p;
    }
    inline ob::PlannerPtr mkBIT(const ob::SpaceInformationPtr &si)
    {
        auto p = std::make_shared<og::BITstar>(si);
        p->setSamplesPerBatch(6);
        return p;
    }
    inline ob::PlannerPtr mkABIT(const ob::SpaceInformationPtr &si)
    {
        auto p = std::make_shared<og::ABITstar>(si);
        p->setSamplesPerBatch(6);
        return p;
    }
    inline ob::PlannerPtr mkAIT(const ob::SpaceInformationPtr &si)
    {
        auto p = std::make_shared<og::AITstar>(si);
        p->setBatchSize(6);
        return p;
    }
    inline ob::PlannerPtr mkEIT(const ob::SpaceInformationPtr &si)
    {
        auto p = std::make_shared<og::EITstar>(si);
        p->setBatchSize(6);
        return p;
    }
    inline ob::PlannerPtr mkEIRM(const ob::SpaceInformationPtr &si)
    {
        auto p = std::make_shared<og::EIRMstar>(si);
        p->setBatchSize(6);
        return p;
    }

    // ---- option variants: the non-default branches of the same solve() loops
    template <class P>
    ob::PlannerPtr mkInter(const ob::SpaceInformationPtr &si)
    {
        auto p = std::make_shared<P>(si);
        p->setIntermediateStates(true);
        return p;
    }
    inline ob::PlannerPtr mkRRTstarR(const ob::SpaceInformationPtr &si)
    {
        auto p = std::make_shared<og::RRTstar>(si);
        p->setKNearest(false);
        p->setDelayCC(false);
        return p;
    }
    inline ob::PlannerPtr mkRRTstarPrune(const ob::SpaceInformationPtr &si)
    {
        auto p = std::make_shared<og::RRTstar>(si);
        p->setTreePruning(true);
        p->setPruneThreshold(0.0);
        p->setNewStateRejection(true);
        return p;
    }
    inline ob::PlannerPtr mkRRTstarRej(const ob::SpaceInformationPtr &si)
    {
        auto p = std::make_shared<og::RRTstar>(si);
        p->setSampleRejection(true);
        p->setFocusSearch(false);
        return p;
    }
    inline ob::PlannerPtr mkRRTXeps(const ob::SpaceInformationPtr &si)
    {
        auto p = std::make_shared<og::RRTXstatic>(si);
        p->setEpsilon(0.1);
        p->setKNearest(false);
        return p;
    }
    inline ob::PlannerPtr mkRRTXv2(const ob::SpaceInformationPtr &si)
    {
        auto p = std::make_shared<og::RRTXstatic>(si);
        p->setVariant(2);
        p->setAlpha(0.5);
        return p;
    }
    inline ob::PlannerPtr mkRRTsharpV3(const ob::SpaceInformationPtr &si)
    {
        auto p = std::make_shared<og::RRTsharp>(si);
        p->setVariant(3);
        p->setAlpha(0.5);
        return p;
    }
    inline ob::PlannerPtr mkLBTRRTe(const ob::SpaceInformationPtr &si)
    {
        auto p = std::make_shared<og::LBTRRT>(si);
        p->setApproximationFactor(0.0);
        return p;
    }
    inline ob::PlannerPtr mkFMTr(const ob::SpaceInformationPtr &si)
    {
        auto p = std::make_shared<og::FMT>(si);
        p->setNumSamples(24);
        p->setNearestK(false);
        p->setCacheCC(false);
        p->setHeuristics(true);
        p->setExtendedFMT(false);
        return p;
    }
    inline ob::PlannerPtr mkBFMTr(const ob::SpaceInformationPtr &si)
    {
        auto p = std::make_shared<og::BFMT>(si);
        p->setNumSamples(24);
        p->setNearestK(false);
        p->setExploration(false);
        p->setTermination(false);
        p->setHeuristics(true);
        p->setCacheCC(false);
        return p;
    }
    template <class P>
    ob::PlannerPtr mkKeep(const ob::SpaceInformationPtr &si)
    {
        auto p = std::make_shared<P>(si);
        p->setKeepLast(true);
        return p;
    }
    inline ob::PlannerPtr mkSTRIDEp(const ob::SpaceInformationPtr &si)
    {
        auto p = std::make_shared<og::STRIDE>(si);
        p->setUseProjectedDistance(true);
        p->setMinValidPathFraction(0.5);
        return p;
    }
    inline ob::PlannerPtr mkSSTtight(const ob::SpaceInformationPtr &si)
    {
        auto p = std::make_shared<og::SST>(si);
        p->setSelectionRadius(0.6);
        p->setPruningRadius(0.35);
        return p;
    }
    inline ob::PlannerPtr mkBITopt(const ob::SpaceInformationPtr &si)
    {
        auto p = std::make_shared<og::BITstar>(si);
        p->setSamplesPerBatch(6);
        p->setUseKNearest(false);
        p->setStrictQueueOrdering(true);
        p->setDropSamplesOnPrune(true);
        p->setDelayRewiringUntilInitialSolution(true);
        p->setJustInTimeSampling(true);
        return p;
    }
    inline ob::PlannerPtr mkAITr(const ob::SpaceInformationPtr &si)
    {
        auto p = std::make_shared<og::AITstar>(si);
        p->setBatchSize(6);
        p->setUseKNearest(false);
        p->enablePruning(false);
        p->trackApproximateSolutions(false);
        return p;
    }
    inline ob::PlannerPtr mkEITr(const ob::SpaceInformationPtr &si)
    {
        auto p = std::make_shared<og::EITstar>(si);
        p->setBatchSize(6);
        p->setUseKNearest(false);
        p->enablePruning(false);
        p->trackApproximateSolutions(false);
        return p;
    }
    inline ob::PlannerPtr mkLazyPRMk(const ob::SpaceInformationPtr &si)
    {
        auto p = std::make_shared<og::LazyPRM>(si);
        p->setMaxNearestNeighbors(3);
        return p;
    }

    // ---- planners that need extra structure: a vector field, a task space, a workspace decomposition. All three are defined on the
    // first two value locations (x, y) of the space, which every world of the harness has.
    inline void xyBounds(const ob::StateSpacePtr &sp, ob::RealVectorBounds &b)
    {
        if (sp->getType() == ob::STATE_SPACE_REAL_VECTOR)
            b = sp->as<ob::RealVectorStateSpace>()->getBounds();
        else
            b = sp->as<ob::SE2StateSpace>()->getBounds();  // SE(2), Dubins, Reeds-Shepp
        b.low.resize(2);
        b.high.resize(2);
    }
    inline ob::PlannerPtr mkVFRRT(const ob::SpaceInformationPtr &si)
    {
        ob::StateSpace *sp = si->getStateSpace().get();
        auto vf = [sp](const ob::State *s) {
            Eigen::VectorXd v(sp->getValueLocations().size());
            v.setZero();
            double x = *sp->getValueAddressAtIndex(s, 0), y = *sp->getValueAddressAtIndex(s, 1);
            v[0] = 0.6 - 0.3 * (y - 2.0);  // a drift towards +x with a swirl around (2,2); vanishes nowhere on the maps
            v[1] = 0.4 + 0.3 * (x - 2.0);
            return v;
        };
        return std::make_shared<og::VFRRT>(si, vf, 0.7, 1.0, 10);
    }
    struct XYTaskSpace : og::TaskSpaceConfig
    {
        ob::StateSpacePtr sp;
        ob::RealVectorBounds b{2};
        mutable ompl::RNG rng;  // drawn through hook H1 like every other generator
        XYTaskSpace(const ob::StateSpacePtr &s) : sp(s)
        {
            xyBounds(sp, b);
        }
        int getDimension() const override
        {
            return 2;
        }
        void project(const ob::State *state, Eigen::Ref<Eigen::VectorXd> ts) const override
        {
            ts[0] = *sp->getValueAddressAtIndex(state, 0);
            ts[1] = *sp->getValueAddressAtIndex(state, 1);
        }
        void sample(Eigen::Ref<Eigen::VectorXd> ts) const override
        {
            ts[0] = rng.uniformReal(b.low[0], b.high[0]);
            ts[1] = rng.uniformReal(b.low[1], b.high[1]);
        }
        bool lift(const Eigen::Ref<Eigen::VectorXd> &ts, const ob::State *seed, ob::State *state) const override
        {
            sp->copyState(state, seed);
            *sp->getValueAddressAtIndex(state, 0) = ts[0];
            *sp->getValueAddressAtIndex(state, 1) = ts[1];
            return true;
        }
    };
    inline ob::PlannerPtr mkTSRRT(const ob::SpaceInformationPtr &si)
    {
        return std::make_shared<og::TSRRT>(si, std::make_shared<XYTaskSpace>(si->getStateSpace()));
    }
    struct XYDecomposition : og::XXLPositionDecomposition
    {
        ob::StateSpacePtr sp;
        ob::StateSamplerPtr smp;
        ob::RealVectorBounds b{2};
        mutable ompl::RNG rng;
        int n;
        static ob::RealVectorBounds mkb(const ob::StateSpacePtr &s)
        {
            ob::RealVectorBounds b(2);
            xyBounds(s, b);
            return b;
        }
        XYDecomposition(const ob::StateSpacePtr &s, int slices) : og::XXLPositionDecomposition(mkb(s), {slices, slices}, true), sp(s), smp(s->allocStateSampler()), n(slices)
        {
            xyBounds(sp, b);
        }
        int numLayers() const override
        {
            return 1;
        }
        bool sampleFromRegion(int r, ob::State *s, const ob::State *seed = nullptr) const override
        {
            return sampleFromRegion(r, s, seed, 0);
        }
        bool sampleFromRegion(int r, ob::State *s, const ob::State *seed, int) const override
        {
            if (seed)
                sp->copyState(s, seed);
            else
                smp->sampleUniform(s);
            std::vector<int> cell;
            ridToGridCell(r, cell);
            double w0 = (b.high[0] - b.low[0]) / n, w1 = (b.high[1] - b.low[1]) / n;
            *sp->getValueAddressAtIndex(s, 0) = b.low[0] + (cell[0] + rng.uniform01()) * w0;
            *sp->getValueAddressAtIndex(s, 1) = b.low[1] + (cell[1] + rng.uniform01()) * w1;
            return true;
        }
        void project(const ob::State *s, std::vector<double> &coord, int = 0) const override
        {
            coord.resize(2);
            coord[0] = *sp->getValueAddressAtIndex(s, 0);
            coord[1] = *sp->getValueAddressAtIndex(s, 1);
        }
        void project(const ob::State *s, std::vector<int> &layers) const override
        {
            std::vector<double> c;
            project(s, c, 0);
            layers.assign(1, coordToRegion(c));
        }
    };
    inline ob::PlannerPtr mkXXL(const ob::SpaceInformationPtr &si)
    {
        return std::make_shared<og::XXL>(si, std::make_shared<XYDecomposition>(si->getStateSpace(), 2));
    }

    // multilevel planners: on a plain SE(2) problem the planner gets the level sequence [R^2, SE(2)] (projection guessed by the library);
    // the base level's validity is the bundle's at heading 0 (the cell worlds do not depend on the heading). Everything else: one level.
    template <class P>
    ob::PlannerPtr mkML(const ob::SpaceInformationPtr &si)
    {
        auto sp = si->getStateSpace();
        if (sp->getType() != ob::STATE_SPACE_SE2)
            return std::make_shared<P>(si);
        auto base = std::make_shared<ob::RealVectorStateSpace>(2);
        base->setBounds(sp->as<ob::SE2StateSpace>()->getBounds());
        auto bsi = std::make_shared<ob::SpaceInformation>(base);
        ob::SpaceInformation *top = si.get();
        bsi->setStateValidityChecker([top](const ob::State *s) {
            ob::State *l = top->allocState();
            auto *e = l->as<ob::SE2StateSpace::StateType>();
            e->setXY(s->as<ob::RealVectorStateSpace::StateType>()->values[0], s->as<ob::RealVectorStateSpace::StateType>()->values[1]);
            e->setYaw(0);
            bool v = top->isValid(l);
            top->freeState(l);
            return v;
        });
        bsi->setStateValidityCheckingResolution(si->getStateValidityCheckingResolution());
        bsi->setup();
        std::vector<ob::SpaceInformationPtr> levels{bsi, si};
        return std::make_shared<P>(levels);
    }

    struct Ent
    {
        const char *name;
        ob::PlannerPtr (*make)(const ob::SpaceInformationPtr &);
        unsigned flags;
    };

    inline const std::vector<Ent> &planners()
    {
        static const std::vector<Ent> P = {
            {"RRT", mk<og::RRT>, EXACT_EDGES},
            {"RRTConnect", mk<og::RRTConnect>, EXACT_EDGES},
            {"RRTstar", mk<og::RRTstar>, EXACT_EDGES | OPTIMIZING | COST_EXACT},
            {"InformedRRTstar", mk<og::InformedRRTstar>, EXACT_EDGES | OPTIMIZING | COST_EXACT | IGNORES_SAMPLER},
            {"SORRTstar", mk<og::SORRTstar>, EXACT_EDGES | OPTIMIZING | COST_EXACT | IGNORES_SAMPLER},
            {"RRTsharp", mk<og::RRTsharp>, EXACT_EDGES | OPTIMIZING},
            {"RRTXstatic", mk<og::RRTXstatic>, EXACT_EDGES | OPTIMIZING},
            {"LazyRRT", mk<og::LazyRRT>, 0},
            {"TRRT", mk<og::TRRT>, EXACT_EDGES | OPTIMIZING},
            {"BiTRRT", mk<og::BiTRRT>, EXACT_EDGES},
            {"LBTRRT", mk<og::LBTRRT>, EXACT_EDGES | OPTIMIZING},
            {"LazyLBTRRT", mk<og::LazyLBTRRT>, OPTIMIZING},
            {"SBL", mk<og::SBL>, 0},
            {"EST", mk<og::EST>, EXACT_EDGES},
            {"BiEST", mk<og::BiEST>, EXACT_EDGES},
            {"ProjEST", mk<og::ProjEST>, EXACT_EDGES},
            {"KPIECE1", mk<og::KPIECE1>, EXACT_EDGES},
            {"BKPIECE1", mk<og::BKPIECE1>, EXACT_EDGES},
            {"LBKPIECE1", mk<og::LBKPIECE1>, 0},
            {"PDST", mk<og::PDST>, 0},
            {"STRIDE", mk<og::STRIDE>, EXACT_EDGES},
            {"PRM", mk<og::PRM>, EXACT_EDGES | TWO_THREADED},
            {"PRMstar", mk<og::PRMstar>, EXACT_EDGES | TWO_THREADED | OPTIMIZING | COST_EXACT},
            {"LazyPRM", mk<og::LazyPRM>, 0},
            {"LazyPRMstar", mk<og::LazyPRMstar>, OPTIMIZING | COST_EXACT},
            {"SPARS", mk<og::SPARS>, EXACT_EDGES | TWO_THREADED},
            {"SPARStwo", mk<og::SPARStwo>, TWO_THREADED},
            {"FMT", mkFMT, EXACT_EDGES | OPTIMIZING | COST_EXACT},
            {"BFMT", mkBFMT, EXACT_EDGES | OPTIMIZING | COST_EXACT},
            {"SST", mk<og::SST>, EXACT_EDGES | OPTIMIZING | COST_EXACT},
            {"RLRT", mk<og::RLRT>, EXACT_EDGES},
            {"BiRLRT", mk<og::BiRLRT>, 0},
            {"BITstar", mkBIT, EXACT_EDGES | OPTIMIZING | COST_EXACT | IGNORES_SAMPLER},
            {"ABITstar", mkABIT, EXACT_EDGES | OPTIMIZING | COST_EXACT | IGNORES_SAMPLER},
            {"AITstar", mkAIT, EXACT_EDGES | OPTIMIZING | COST_EXACT | IGNORES_SAMPLER},
            {"EITstar", mkEIT, OPTIMIZING | COST_EXACT | IGNORES_SAMPLER},
            {"EIRMstar", mkEIRM, OPTIMIZING | COST_EXACT | IGNORES_SAMPLER},
            {"QRRT", mkML<ompl::multilevel::QRRT>, MULTILEVEL},
            {"QRRTStar", mkML<ompl::multilevel::QRRTStar>, MULTILEVEL},
            {"QMP", mkML<ompl::multilevel::QMP>, MULTILEVEL},
            {"QMPStar", mkML<ompl::multilevel::QMPStar>, MULTILEVEL},
            {"RRT+inter", mkInter<og::RRT>, VARIANT}  /* intermediate states: pieces of one validated motion, re-checked at another phase */,
            {"RRTConnect+inter", mkInter<og::RRTConnect>, VARIANT},
            {"RRTstar+r", mkRRTstarR, EXACT_EDGES | OPTIMIZING | COST_EXACT | VARIANT},
            {"RRTstar+prune", mkRRTstarPrune, EXACT_EDGES | OPTIMIZING | COST_EXACT | VARIANT},
            {"RRTstar+rej", mkRRTstarRej, EXACT_EDGES | OPTIMIZING | COST_EXACT | IGNORES_SAMPLER | VARIANT},
            {"RRTXstatic+eps", mkRRTXeps, EXACT_EDGES | OPTIMIZING | VARIANT},
            {"RRTXstatic+v2", mkRRTXv2, EXACT_EDGES | OPTIMIZING | VARIANT},
            {"RRTsharp+v3", mkRRTsharpV3, EXACT_EDGES | OPTIMIZING | VARIANT},
            {"LBTRRT+e0", mkLBTRRTe, EXACT_EDGES | OPTIMIZING | VARIANT},
            {"FMT+r", mkFMTr, EXACT_EDGES | OPTIMIZING | COST_EXACT | VARIANT},
            {"BFMT+r", mkBFMTr, EXACT_EDGES | OPTIMIZING | COST_EXACT | VARIANT},
            {"RLRT+keep", mkKeep<og::RLRT>, EXACT_EDGES | VARIANT},
            {"BiRLRT+keep", mkKeep<og::BiRLRT>, VARIANT},
            {"STRIDE+proj", mkSTRIDEp, EXACT_EDGES | VARIANT},
            {"SST+tight", mkSSTtight, EXACT_EDGES | OPTIMIZING | COST_EXACT | VARIANT},
            {"BITstar+opt", mkBITopt, EXACT_EDGES | OPTIMIZING | COST_EXACT | IGNORES_SAMPLER | VARIANT},
            {"AITstar+r", mkAITr, EXACT_EDGES | OPTIMIZING | COST_EXACT | IGNORES_SAMPLER | VARIANT},
            {"EITstar+r", mkEITr, OPTIMIZING | COST_EXACT | IGNORES_SAMPLER | VARIANT},
            {"LazyPRM+k3", mkLazyPRMk, VARIANT},
            {"VFRRT", mkVFRRT, VARIANT},
            {"TSRRT", mkTSRRT, VARIANT},
            {"XXL", mkXXL, VARIANT},
        };
        return P;
    }
    // salt of the default answer stream a harness should use for this planner (see choice.hpp: >= 1000 selects the hashed stream)
    inline unsigned streamSalt(const std::string &planner)
    {
        return planner == "XXL" ? 1000u : 0u;
    }
    inline const Ent *find(const std::string &n)
    {
        for (auto &e : planners())
            if (n == e.name)
                return &e;
        return nullptr;
    }
}  // namespace vpl
