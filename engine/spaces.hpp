// spaces.hpp — catalogue of state-space configurations with boundary-value state lattices, shared by C06-C09.
#pragma once
#include <ompl/base/StateSpace.h>
#include <ompl/base/spaces/RealVectorStateSpace.h>
#include <ompl/base/spaces/SO2StateSpace.h>
#include <ompl/base/spaces/SO3StateSpace.h>
#include <ompl/base/spaces/SE2StateSpace.h>
#include <ompl/base/spaces/SE3StateSpace.h>
#include <ompl/base/spaces/TimeStateSpace.h>
#include <ompl/base/spaces/DiscreteStateSpace.h>
#include <ompl/base/spaces/DubinsStateSpace.h>
#include <ompl/base/spaces/ReedsSheppStateSpace.h>
#include <ompl/base/spaces/WrapperStateSpace.h>
#include <ompl/base/spaces/special/TorusStateSpace.h>
#include <ompl/base/spaces/special/SphereStateSpace.h>
#include <ompl/base/spaces/special/MobiusStateSpace.h>
#include <ompl/base/spaces/special/KleinBottleStateSpace.h>
#include <cmath>
#include <functional>
#include <set>
#include <string>
#include <vector>

namespace vsp
{
    namespace ob = ompl::base;
    using Coords = std::vector<double>;
    static const double PI = 3.14159265358979323846;  // == boost pi as double
    static const long double PIL = 3.14159265358979323846264338327950288L;

    // ---- generic coordinate access (covers Discrete, which has no "reals") ----
    inline void setCoordsRec(const ob::StateSpace *sp, ob::State *s, const double *&p)
    {
        if (auto *w = dynamic_cast<const ob::WrapperStateSpace *>(sp))
        {
            setCoordsRec(w->getSpace().get(), s->as<ob::WrapperStateSpace::StateType>()->getState(), p);
            return;
        }
        if (sp->isCompound())
        {
            auto *cs = sp->as<ob::CompoundStateSpace>();
            for (unsigned i = 0; i < cs->getSubspaceCount(); ++i)
                setCoordsRec(cs->getSubspace(i).get(), s->as<ob::CompoundState>()->components[i], p);
            return;
        }
        switch (sp->getType())
        {
            case ob::STATE_SPACE_REAL_VECTOR:
                for (unsigned i = 0; i < sp->getDimension(); ++i)
                    s->as<ob::RealVectorStateSpace::StateType>()->values[i] = *p++;
                break;
            case ob::STATE_SPACE_SO2:
                s->as<ob::SO2StateSpace::StateType>()->value = *p++;
                break;
            case ob::STATE_SPACE_SO3:
            {
                auto *q = s->as<ob::SO3StateSpace::StateType>();
                q->x = *p++;
                q->y = *p++;
                q->z = *p++;
                q->w = *p++;
                break;
            }
            case ob::STATE_SPACE_TIME:
                s->as<ob::TimeStateSpace::StateType>()->position = *p++;
                break;
            case ob::STATE_SPACE_DISCRETE:
                s->as<ob::DiscreteStateSpace::StateType>()->value = (int)*p++;
                break;
            default:
                fprintf(stderr, "setCoords: unsupported space type %d\n", sp->getType());
                exit(2);
        }
    }
    inline void getCoordsRec(const ob::StateSpace *sp, const ob::State *s, Coords &out)
    {
        if (auto *w = dynamic_cast<const ob::WrapperStateSpace *>(sp))
        {
            getCoordsRec(w->getSpace().get(), s->as<ob::WrapperStateSpace::StateType>()->getState(), out);
            return;
        }
        if (sp->isCompound())
        {
            auto *cs = sp->as<ob::CompoundStateSpace>();
            for (unsigned i = 0; i < cs->getSubspaceCount(); ++i)
                getCoordsRec(cs->getSubspace(i).get(), s->as<ob::CompoundState>()->components[i], out);
            return;
        }
        switch (sp->getType())
        {
            case ob::STATE_SPACE_REAL_VECTOR:
                for (unsigned i = 0; i < sp->getDimension(); ++i)
                    out.push_back(s->as<ob::RealVectorStateSpace::StateType>()->values[i]);
                break;
            case ob::STATE_SPACE_SO2:
                out.push_back(s->as<ob::SO2StateSpace::StateType>()->value);
                break;
            case ob::STATE_SPACE_SO3:
            {
                auto *q = s->as<ob::SO3StateSpace::StateType>();
                out.push_back(q->x);
                out.push_back(q->y);
                out.push_back(q->z);
                out.push_back(q->w);
                break;
            }
            case ob::STATE_SPACE_TIME:
                out.push_back(s->as<ob::TimeStateSpace::StateType>()->position);
                break;
            case ob::STATE_SPACE_DISCRETE:
                out.push_back(s->as<ob::DiscreteStateSpace::StateType>()->value);
                break;
            default:
                fprintf(stderr, "getCoords: unsupported space type %d\n", sp->getType());
                exit(2);
        }
    }
    inline void setCoords(const ob::StateSpacePtr &sp, ob::State *s, const Coords &c)
    {
        const double *p = c.data();
        setCoordsRec(sp.get(), s, p);
        if (p != c.data() + c.size())
        {
            fprintf(stderr, "setCoords: %zu coordinates given, %ld consumed (%s)\n", c.size(), (long)(p - c.data()), sp->getName().c_str());
            exit(2);
        }
    }
    inline Coords getCoords(const ob::StateSpacePtr &sp, const ob::State *s)
    {
        Coords c;
        getCoordsRec(sp.get(), s, c);
        return c;
    }
    inline std::string cstr(const Coords &c)
    {
        std::string s = "[";
        char b[40];
        for (size_t i = 0; i < c.size(); ++i)
        {
            snprintf(b, sizeof b, "%.17g", c[i]);
            s += (i ? "," : "");
            s += b;
        }
        return s + "]";
    }

    // ---- lattices of atoms ----
    inline std::vector<Coords> product(const std::vector<std::vector<Coords>> &parts)
    {
        std::vector<Coords> r{{}};
        for (auto &p : parts)
        {
            std::vector<Coords> n;
            for (auto &a : r)
                for (auto &b : p)
                {
                    Coords c = a;
                    c.insert(c.end(), b.begin(), b.end());
                    n.push_back(c);
                }
            r.swap(n);
        }
        return r;
    }
    inline std::vector<Coords> scalars(std::initializer_list<double> l)
    {
        std::vector<Coords> r;
        for (double d : l)
            r.push_back({d});
        return r;
    }
    inline std::vector<Coords> angles(int level)  // SO(2) values in [-pi, pi)
    {
        double lo = -PI, hi = nextafter(PI, 0.0);
        if (level == 0)
            return scalars({lo, -1e-9, 1.0, hi});
        if (level == 1)
            return scalars({lo, nextafter(lo, 0.0), -PI / 2, -1e-9, 0.0, 1e-9, 1.0, PI / 2, 3.0, hi});
        // 1.138951553990722: from + (hi - from) * 1 rounds up to exactly pi (found by the densified thorough lattice; kept as a regression input)
        if (level == 2)
            return scalars({lo, nextafter(lo, 0.0), -3.0, -PI / 2, -1.138951553990722, -1.0, -1e-9, 0.0, 1e-9, 0.3, 0.7071067811865476, 1.0, 1.138951553990722, PI / 2, 2.0, 2.2, 3.0, nextafter(hi, 0.0), hi});
        return scalars({lo, nextafter(lo, 0.0), lo + 1e-9, -3.0, -2.5, nextafter(-PI / 2, -4.0), -PI / 2, nextafter(-PI / 2, 0.0), -1.0, -0.1, -1e-9, -5e-324, 0.0, 5e-324, 1e-9,
                        0.1, 0.3, 0.7071067811865476, 1.0, 1.138951553990722, nextafter(PI / 2, 0.0), PI / 2, nextafter(PI / 2, 4.0), 2.0, 2.2, 2.5, 3.0, hi - 1e-9, nextafter(hi, 0.0), hi});
    }
    inline Coords quatAxisAngle(double ax, double ay, double az, double angle)
    {
        double n = std::sqrt(ax * ax + ay * ay + az * az);
        double s = std::sin(angle / 2) / n;
        return {ax * s, ay * s, az * s, std::cos(angle / 2)};
    }
    inline std::vector<Coords> quats(int level)
    {
        std::vector<Coords> r;
        r.push_back({0, 0, 0, 1});
        r.push_back({0, 0, 0, -1});  // double cover of the identity
        r.push_back({1, 0, 0, 0});   // 180 deg about x (antipodal to identity in rotation angle)
        r.push_back({0, 1, 0, 0});
        r.push_back(quatAxisAngle(0, 0, 1, PI / 2));
        r.push_back(quatAxisAngle(1, 1, 1, 2 * PI / 3));
        r.push_back(quatAxisAngle(0, 0, 1, 1e-3));
        if (level >= 1)
        {
            r.push_back({0, 0, 1, 0});
            r.push_back(quatAxisAngle(1, 0, 0, PI / 2));
            r.push_back(quatAxisAngle(0, 1, 0, -PI / 2));
            r.push_back(quatAxisAngle(0, 0, 1, 1e-5));
            r.push_back(quatAxisAngle(0.3, -0.5, 0.8, 2.2));
            Coords q = quatAxisAngle(1, 1, 1, 2 * PI / 3);
            r.push_back({-q[0], -q[1], -q[2], -q[3]});
            r.push_back(quatAxisAngle(1, 0, 0, PI - 1e-5));
        }
        if (level >= 2)
        {
            // the rest of the 24 cube rotations
            for (int ax = 0; ax < 3; ++ax)
                for (double ang : {PI / 2, PI, -PI / 2})
                    r.push_back(quatAxisAngle(ax == 0, ax == 1, ax == 2, ang));
            for (double sx : {-1.0, 1.0})
                for (double sy : {-1.0, 1.0})
                    for (double ang : {2 * PI / 3, -2 * PI / 3})
                        r.push_back(quatAxisAngle(sx, sy, 1, ang));
            for (auto ax : std::vector<Coords>{{1, 1, 0}, {1, -1, 0}, {1, 0, 1}, {1, 0, -1}, {0, 1, 1}, {0, 1, -1}})
                r.push_back(quatAxisAngle(ax[0], ax[1], ax[2], PI));
        }
        return r;
    }

    // ---- independent reference separations (long double), used only to decide whether two states are truly distinct ----
    inline long double wrapAbs(long double d)
    {
        d = fabsl(d);
        while (d > 2 * PIL)
            d -= 2 * PIL;
        return d > PIL ? 2 * PIL - d : d;
    }
    inline long double refSepRec(const ob::StateSpace *sp, const double *&a, const double *&b)
    {
        if (auto *w = dynamic_cast<const ob::WrapperStateSpace *>(sp))
            return refSepRec(w->getSpace().get(), a, b);
        if (sp->getType() == ob::STATE_SPACE_SPHERE)
        {
            // (theta, phi) -> unit vector; central angle
            long double t1 = a[0], p1 = a[1], t2 = b[0], p2 = b[1];
            a += 2;
            b += 2;
            long double x1 = sinl(p1) * cosl(t1), y1 = sinl(p1) * sinl(t1), z1 = cosl(p1);
            long double x2 = sinl(p2) * cosl(t2), y2 = sinl(p2) * sinl(t2), z2 = cosl(p2);
            long double cx = y1 * z2 - z1 * y2, cy = z1 * x2 - x1 * z2, cz = x1 * y2 - y1 * x2;
            return atan2l(sqrtl(cx * cx + cy * cy + cz * cz), x1 * x2 + y1 * y2 + z1 * z2);
        }
        if (sp->getType() == ob::STATE_SPACE_MOBIUS)
        {
            long double u1 = a[0], v1 = a[1], u2 = b[0], v2 = b[1];
            a += 2;
            b += 2;
            long double du = fabsl(u2 - u1);
            return std::min(du + fabsl(v2 - v1), (2 * PIL - du) + fabsl(v2 + v1));
        }
        if (sp->getType() == ob::STATE_SPACE_KLEIN_BOTTLE)
        {
            long double u1 = a[0], v1 = a[1], u2 = b[0], v2 = b[1];
            a += 2;
            b += 2;
            long double du = fabsl(u2 - u1);
            long double v2r = v2 > 0 ? PIL - v2 : -PIL - v2;
            return std::min(du + wrapAbs(v2 - v1), (PIL - du) + wrapAbs(v2r - v1));
        }
        if (sp->isCompound())
        {
            auto *cs = sp->as<ob::CompoundStateSpace>();
            long double m = 0;
            for (unsigned i = 0; i < cs->getSubspaceCount(); ++i)
                m = std::max(m, refSepRec(cs->getSubspace(i).get(), a, b));
            return m;
        }
        switch (sp->getType())
        {
            case ob::STATE_SPACE_REAL_VECTOR:
            {
                long double s = 0;
                for (unsigned i = 0; i < sp->getDimension(); ++i)
                {
                    long double d = (long double)*a++ - (long double)*b++;
                    s += d * d;
                }
                return sqrtl(s);
            }
            case ob::STATE_SPACE_SO2:
                return wrapAbs((long double)*a++ - (long double)*b++);
            case ob::STATE_SPACE_SO3:
            {
                long double dot = 0, na = 0, nb = 0;
                for (int i = 0; i < 4; ++i)
                {
                    dot += (long double)a[i] * b[i];
                    na += (long double)a[i] * a[i];
                    nb += (long double)b[i] * b[i];
                }
                a += 4;
                b += 4;
                long double c = fabsl(dot) / sqrtl(na * nb);
                return c >= 1 ? 0 : acosl(c);
            }
            case ob::STATE_SPACE_TIME:
            case ob::STATE_SPACE_DISCRETE:
                return fabsl((long double)*a++ - (long double)*b++);
            default:
                fprintf(stderr, "refSep: unsupported space type\n");
                exit(2);
        }
    }
    inline long double refSeparation(const ob::StateSpacePtr &sp, const Coords &a, const Coords &b)
    {
        const double *pa = a.data(), *pb = b.data();
        return refSepRec(sp.get(), pa, pb);
    }

    struct SpaceCfg
    {
        std::string name;
        ob::StateSpacePtr space;
        std::vector<Coords> lattice;
        double tol = 1e-9;           // absolute tolerance floor; laws use tol*(1+|x|)
        bool geodesic = false;       // d(a, interp(a,b,t)) == t d(a,b) claimed by the statement
        bool reparamExempt = false;  // discrete / hybrid
        bool headingOnly = false;    // Dubins / Reeds-Shepp: only the heading must stay in bounds when interpolating
        bool plainCompound = false;  // distance == weighted sum of component distances
        bool extentLaw = true;       // bounded space
        bool tieRule = false;        // shortest curves not unique: re-parameterisation up to the choice of curve
        bool hasDiscrete = false;
        bool pseudoMetric = false;   // a zero subspace weight: distinct states may be at distance 0 by the user's own choice (positivity not asserted)
    };

    inline std::vector<std::string> spaceNames(bool thorough)
    {
        std::vector<std::string> n = {"R1", "R2", "R3neg", "R2huge", "R2degenerate", "SO2", "SO3", "SE2", "SE3", "Time", "TimeUnbounded", "Discrete", "Torus", "Sphere1",
                                      "Sphere3", "Mobius05", "Mobius1", "Mobius4", "Klein", "Dubins", "DubinsSym", "ReedsShepp", "WrapSO2", "WrapSE2", "CompoundW", "Nested",
                                      "Hybrid"};
        if (thorough)
            n.push_back("Nested3");
        return n;
    }


    // thorough tier: enlarge a lattice by states the space itself produces between lattice members (golden-section points of a fixed,
    // deterministic selection of pairs). Inputs only: anything that is not a valid in-bounds state is dropped, duplicates are dropped.
    inline void densify(SpaceCfg &c, size_t maxSize)
    {
        size_t n = c.lattice.size();
        if (n < 2 || c.hasDiscrete)
            return;
        auto *sp = c.space.get();
        ob::State *a = sp->allocState(), *b = sp->allocState(), *o = sp->allocState();
        std::set<Coords> seen(c.lattice.begin(), c.lattice.end());
        for (size_t stride : {(size_t)1, (size_t)3, (size_t)7})
            for (size_t i = 0; i < n && c.lattice.size() < maxSize; ++i)
            {
                size_t j = (i * 5 + stride * 11 + 1) % n;
                if (i == j)
                    continue;
                const double *p = c.lattice[i].data();
                setCoordsRec(sp, a, p);
                p = c.lattice[j].data();
                setCoordsRec(sp, b, p);
                sp->interpolate(a, b, stride == 1 ? 0.3819660112501051 : stride == 3 ? 0.5 : 0.9, o);
                if (!sp->satisfiesBounds(o))
                    continue;
                Coords co;
                getCoordsRec(sp, o, co);
                bool finite = true;
                for (double d : co)
                    finite = finite && std::isfinite(d);
                if (finite && seen.insert(co).second)
                    c.lattice.push_back(co);
            }
        sp->freeState(a);
        sp->freeState(b);
        sp->freeState(o);
    }

    // configurations that only some properties drive
    inline std::vector<std::string> pinnedSpaceNames()
    {
        return {"R2pinned", "SE2pinned"};  // (a Time space pinned to one instant has zero extent and cannot be set up)
    }
    inline std::vector<std::string> nonMetricWrapperNames()
    {
        return {"WrapDubinsSym", "WrapCompoundDubins"};
    }

    inline ob::RealVectorBounds rvb(std::initializer_list<std::pair<double, double>> l)
    {
        ob::RealVectorBounds b(l.size());
        int i = 0;
        for (auto &p : l)
        {
            b.setLow(i, p.first);
            b.setHigh(i, p.second);
            ++i;
        }
        return b;
    }

    // level: 0 small (triples in quick), 1 medium, 2 large
    inline SpaceCfg makeSpace(const std::string &name, int level)
    {
        SpaceCfg c;
        c.name = name;
        auto mid = [](double lo, double hi) { return lo + (hi - lo) * 0.6180339887498949; };
        auto rline = [&](double lo, double hi) {
            if (level == 0)
                return scalars({lo, mid(lo, hi), hi});
            if (level <= 2)
                return scalars({lo, nextafter(lo, hi), lo + (hi - lo) * 0.25, mid(lo, hi), hi - (hi - lo) * 1e-9, hi});
            return scalars({lo, nextafter(lo, hi), lo + (hi - lo) * 1e-9, lo + (hi - lo) * 0.25, lo + (hi - lo) * 0.5, mid(lo, hi), hi - (hi - lo) * 0.1, hi - (hi - lo) * 1e-9,
                            nextafter(hi, lo), hi});
        };
        if (name == "R1")
        {
            auto s = std::make_shared<ob::RealVectorStateSpace>(1);
            s->setBounds(-1, 2);
            c.space = s;
            c.lattice = scalars({-1, nextafter(-1.0, 0.0), -1e-9, 0, 1e-9, 0.5, 0.8541019662496847, 2 - 1e-9, 2});
            c.geodesic = true;
        }
        else if (name == "R2")
        {
            auto s = std::make_shared<ob::RealVectorStateSpace>(2);
            s->setBounds(rvb({{-1, 2}, {0, 4}}));
            c.space = s;
            c.lattice = product({rline(-1, 2), rline(0, 4)});
            c.geodesic = true;
        }
        else if (name == "R3neg")
        {
            auto s = std::make_shared<ob::RealVectorStateSpace>(3);
            s->setBounds(rvb({{-5, -3}, {-1, 1}, {10, 10.5}}));
            c.space = s;
            c.lattice = product({scalars({-5, -3.7, -3}), scalars({-1, 1e-9, 1}), scalars({10, 10.5})});
            c.geodesic = true;
        }
        else if (name == "R2huge")
        {
            auto s = std::make_shared<ob::RealVectorStateSpace>(2);
            s->setBounds(rvb({{-1e12, 1e12}, {-1e-6, 1e-6}}));
            c.space = s;
            c.lattice = product({scalars({-1e12, -3.3e5, 0, 7.7e11, 1e12}), scalars({-1e-6, 0, 3e-7, 1e-6})});
            c.geodesic = true;
            c.tol = 1e-9;
        }
        else if (name == "R2degenerate")
        {
            auto s = std::make_shared<ob::RealVectorStateSpace>(2);
            s->setBounds(rvb({{0, 1}, {2, 2}}));  // zero-width second dimension
            c.space = s;
            c.lattice = product({scalars({0, 0.3, 1}), scalars({2})});
            c.geodesic = true;
        }
        else if (name == "SO2")
        {
            c.space = std::make_shared<ob::SO2StateSpace>();
            c.lattice = angles(level == 0 ? 1 : level == 1 ? 2 : 3);
            c.geodesic = true;
            c.tieRule = true;
        }
        else if (name == "SO3")
        {
            c.space = std::make_shared<ob::SO3StateSpace>();
            c.lattice = quats(std::min(level, 2));
            c.geodesic = true;
            c.tol = 4.5e-5;
            c.tieRule = true;
        }
        else if (name == "SE2")
        {
            auto s = std::make_shared<ob::SE2StateSpace>();
            s->setBounds(rvb({{-1, 3}, {0, 2}}));
            c.space = s;
            c.lattice = product({level == 0 ? std::vector<Coords>{{-1, 0}, {0.3, 1.7}, {3, 2}} : std::vector<Coords>{{-1, 0}, {-1, 2}, {0.3, 1.7}, {1.1, 0.2}, {3, 2}}, angles(level >= 2 ? 1 : 0)});
            c.geodesic = true;
            c.plainCompound = true;
            c.tieRule = true;
        }
        else if (name == "SE3")
        {
            auto s = std::make_shared<ob::SE3StateSpace>();
            s->setBounds(rvb({{-1, 1}, {0, 2}, {-3, -2}}));
            c.space = s;
            c.lattice = product({std::vector<Coords>{{-1, 0, -3}, {0.3, 1.7, -2.5}, {1, 2, -2}}, quats(level >= 2 ? 1 : 0)});
            c.geodesic = true;
            c.plainCompound = true;
            c.tol = 4.5e-5;
            c.tieRule = true;
        }
        else if (name == "Time")
        {
            auto s = std::make_shared<ob::TimeStateSpace>();
            s->setBounds(0, 5);
            c.space = s;
            c.lattice = scalars({0, 1e-9, 1.25, 3.0901699437494745, 5 - 1e-9, 5});
            c.geodesic = true;
        }
        else if (name == "TimeUnbounded")
        {
            c.space = std::make_shared<ob::TimeStateSpace>();
            c.lattice = scalars({-1e6, -1, 0, 1e-9, 3.3, 1e6});
            c.geodesic = true;
            c.extentLaw = false;  // documented placeholder extent
        }
        else if (name == "Discrete")
        {
            c.space = std::make_shared<ob::DiscreteStateSpace>(-2, 3);
            c.lattice = scalars({-2, -1, 0, 1, 2, 3});
            c.reparamExempt = true;
            c.hasDiscrete = true;
        }
        else if (name == "Torus")
        {
            c.space = std::make_shared<ob::TorusStateSpace>(2.0, 0.5);
            c.lattice = product({angles(level >= 2 ? 1 : 0), angles(level == 0 ? 0 : level == 1 ? 1 : 2)});
            c.geodesic = true;
            c.tieRule = true;
        }
        else if (name == "Sphere1" || name == "Sphere3")
        {
            double r = name == "Sphere1" ? 1.0 : 3.0;
            c.space = std::make_shared<ob::SphereStateSpace>(r);
            c.lattice = product({angles(0), level == 0 ? scalars({0, 1.0, PI / 2, PI}) : scalars({0, 1e-9, 1.0, PI / 2, 2.5, PI - 1e-9, PI})});
            if (level >= 2)
                c.lattice = product({angles(1), scalars({0, 1e-9, 0.5, 1.0, PI / 2, 2.5, PI - 1e-9, PI})});
            c.tol = 2e-3 * r;  // single-precision haversine
            c.tieRule = true;
        }
        else if (name.substr(0, 6) == "Mobius")
        {
            double m = name == "Mobius05" ? 0.5 : name == "Mobius1" ? 1.0 : 4.0;
            c.space = std::make_shared<ob::MobiusStateSpace>(m, 1.0);
            c.lattice = product({level == 0 ? angles(0) : level == 1 ? angles(1) : angles(2), scalars({-m, -0.3 * m, 0, 0.618 * m, m})});
            c.tieRule = true;
        }
        else if (name == "Klein")
        {
            c.space = std::make_shared<ob::KleinBottleStateSpace>();
            c.lattice = product({level == 0 ? scalars({0, 0.1, PI / 2, PI - 0.1, PI}) : scalars({0, 1e-9, 0.1, PI / 2 - 1e-9, PI / 2, 2.0, PI - 0.1, PI}), angles(level >= 2 ? 1 : 0)});
            c.tieRule = true;
        }
        else if (name == "Dubins" || name == "DubinsSym" || name == "ReedsShepp" || name == "ReedsShepp2" || name == "ReedsSheppHalf" || name == "Dubins2Sym")
        {
            std::shared_ptr<ob::SE2StateSpace> s;
            if (name == "ReedsShepp2")
                s = std::make_shared<ob::ReedsSheppStateSpace>(2.0);  // turning radii other than 1: the normalisation by rho matters
            else if (name == "ReedsSheppHalf")
                s = std::make_shared<ob::ReedsSheppStateSpace>(0.5);
            else if (name == "Dubins2Sym")
                s = std::make_shared<ob::DubinsStateSpace>(2.0, true);
            else if (name == "Dubins")
                s = std::make_shared<ob::DubinsStateSpace>(1.0, false);
            else if (name == "DubinsSym")
                s = std::make_shared<ob::DubinsStateSpace>(0.5, true);
            else
                s = std::make_shared<ob::ReedsSheppStateSpace>(1.0);
            s->setBounds(rvb({{-2, 2}, {-2, 2}}));
            c.space = s;
            c.lattice = product({level == 0 ? std::vector<Coords>{{-2, -2}, {0, 0}, {0.3, 1.7}} : std::vector<Coords>{{-2, -2}, {0, 0}, {0.3, 1.7}, {2, -1}, {0, 0.001}}, angles(level >= 2 ? 1 : 0)});
            c.headingOnly = true;
            c.tieRule = true;
            c.tol = 1e-6;
            if (name == "ReedsShepp2" || name == "ReedsSheppHalf" || name == "Dubins2Sym")
                c.extentLaw = false;  // the inherited SE(2) extent is not a bound for the car-like spaces (known finding on "Dubins"); not re-litigated per radius
        }
        else if (name == "R2pinned")
        {
            // zero-width interval at a value that is neither 0 nor a power of two (blend formulas round there)
            auto s = std::make_shared<ob::RealVectorStateSpace>(2);
            s->setBounds(rvb({{1000, 1000}, {-5, 5}}));
            c.space = s;
            c.lattice = product({scalars({1000}), scalars({-5, 0.3, 5})});
            c.geodesic = true;
        }
        else if (name == "TimePinned")
        {
            auto s = std::make_shared<ob::TimeStateSpace>();
            s->setBounds(60, 60);
            c.space = s;
            c.lattice = scalars({60});
            c.geodesic = true;
        }
        else if (name == "SE2pinned")
        {
            auto s = std::make_shared<ob::SE2StateSpace>();
            s->setBounds(rvb({{-10, 10}, {37.5, 37.5}}));
            c.space = s;
            c.lattice = product({std::vector<Coords>{{-10, 37.5}, {0.3, 37.5}, {10, 37.5}}, angles(0)});
            c.geodesic = true;
            c.tieRule = true;
        }
        else if (name == "WrapDubinsSym" || name == "WrapCompoundDubins")
        {
            // wrappers around spaces that are symmetric but NOT metric: the wrapper must not claim more than the wrapped space does
            auto d = std::make_shared<ob::DubinsStateSpace>(0.5, true);
            d->setBounds(rvb({{-2, 2}, {-2, 2}}));
            std::vector<Coords> poses = product({level == 0 ? std::vector<Coords>{{-2, -2}, {0, 0}, {0.3, 1.7}} : std::vector<Coords>{{-2, -2}, {0, 0}, {0.3, 1.7}, {2, -1}, {0, 0.001}}, angles(level >= 2 ? 1 : 0)});
            if (name == "WrapDubinsSym")
            {
                c.space = std::make_shared<ob::WrapperStateSpace>(d);
                c.lattice = poses;
            }
            else
            {
                auto cs = std::make_shared<ob::CompoundStateSpace>();
                auto r = std::make_shared<ob::RealVectorStateSpace>(1);
                r->setBounds(0, 1);
                cs->addSubspace(d, 1.0);
                cs->addSubspace(r, 0.5);
                cs->lock();
                c.space = std::make_shared<ob::WrapperStateSpace>(cs);
                c.lattice = product({poses, scalars({0, 1})});
            }
            c.headingOnly = false;
            c.tieRule = true;
            c.tol = 1e-6;
            c.extentLaw = false;  // the Dubins family exceeds the inherited SE(2) extent (known finding on the Dubins configurations)
        }
        else if (name == "WrapSO2")
        {
            c.space = std::make_shared<ob::WrapperStateSpace>(std::make_shared<ob::SO2StateSpace>());
            c.lattice = angles(level >= 2 ? 2 : 1);
            c.geodesic = true;
            c.tieRule = true;
        }
        else if (name == "WrapSE2")
        {
            auto s = std::make_shared<ob::SE2StateSpace>();
            s->setBounds(rvb({{-1, 3}, {0, 2}}));
            c.space = std::make_shared<ob::WrapperStateSpace>(s);
            c.lattice = product({std::vector<Coords>{{-1, 0}, {0.3, 1.7}, {3, 2}}, angles(0)});
            c.geodesic = true;
            c.tieRule = true;
        }
        else if (name == "CompoundW")
        {
            auto cs = std::make_shared<ob::CompoundStateSpace>();
            auto r = std::make_shared<ob::RealVectorStateSpace>(1);
            r->setBounds(0, 10);
            cs->addSubspace(r, 0.5);
            cs->addSubspace(std::make_shared<ob::SO2StateSpace>(), 2.0);
            auto t = std::make_shared<ob::TimeStateSpace>();
            t->setBounds(-1, 1);
            cs->addSubspace(t, 1.0);
            cs->lock();
            c.space = cs;
            c.lattice = product({scalars({0, 6.18, 10}), angles(0), scalars({-1, 0.2, 1})});
            c.geodesic = true;
            c.plainCompound = true;
            c.tieRule = true;
        }
        else if (name == "CompoundZeroW" || name == "CompoundZeroLast")
        {
            // a subspace of weight 0 (legal: getMaximumExtent() itself guards "0 * inf"), in the middle or at the end
            bool mid = name == "CompoundZeroW";
            auto cs = std::make_shared<ob::CompoundStateSpace>();
            auto r = std::make_shared<ob::RealVectorStateSpace>(1);
            r->setBounds(0, 10);
            cs->addSubspace(r, 0.5);
            auto t = std::make_shared<ob::TimeStateSpace>();
            t->setBounds(-1, 1);
            if (mid)
            {
                cs->addSubspace(std::make_shared<ob::SO2StateSpace>(), 0.0);
                cs->addSubspace(t, 3.0);
            }
            else
            {
                cs->addSubspace(t, 3.0);
                cs->addSubspace(std::make_shared<ob::SO2StateSpace>(), 0.0);
            }
            cs->lock();
            c.space = cs;
            if (mid)
                c.lattice = product({scalars({0, 6.18, 10}), angles(0), scalars({-1, 0.2, 1})});
            else
                c.lattice = product({scalars({0, 6.18, 10}), scalars({-1, 0.2, 1}), angles(0)});
            c.plainCompound = true;
            c.pseudoMetric = true;
        }
        else if (name == "Nested" || name == "Nested3")
        {
            // depth 2 (3): compound( SE2 (w 2), compound( SO3 (w .5), R1 (w 1) ) (w 1) [, compound(compound(SO2))] )
            auto inner = std::make_shared<ob::CompoundStateSpace>();
            inner->addSubspace(std::make_shared<ob::SO3StateSpace>(), 0.5);
            auto r = std::make_shared<ob::RealVectorStateSpace>(1);
            r->setBounds(-1, 1);
            inner->addSubspace(r, 1.0);
            inner->lock();
            auto se2 = std::make_shared<ob::SE2StateSpace>();
            se2->setBounds(rvb({{0, 1}, {0, 1}}));
            auto cs = std::make_shared<ob::CompoundStateSpace>();
            cs->addSubspace(se2, 2.0);
            cs->addSubspace(inner, 1.0);
            std::vector<std::vector<Coords>> parts = {std::vector<Coords>{{0, 0}, {0.6, 1}}, scalars({-PI, 1.0}),
                                                      std::vector<Coords>{{0, 0, 0, 1}, quatAxisAngle(1, 1, 1, 2 * PI / 3), {1, 0, 0, 0}}, scalars({-1, 0.3})};
            if (name == "Nested3")
            {
                auto l1 = std::make_shared<ob::CompoundStateSpace>();
                l1->addSubspace(std::make_shared<ob::SO2StateSpace>(), 1.0);
                l1->lock();
                auto l2 = std::make_shared<ob::CompoundStateSpace>();
                l2->addSubspace(l1, 0.25);
                l2->lock();
                cs->addSubspace(l2, 3.0);
                parts.push_back(scalars({-PI, 3.0}));
            }
            cs->lock();
            c.space = cs;
            c.lattice = product(parts);
            c.geodesic = true;
            c.plainCompound = true;
            c.tol = 4.5e-5;
            c.tieRule = true;
        }
        else if (name == "Hybrid")
        {
            auto cs = std::make_shared<ob::CompoundStateSpace>();
            cs->addSubspace(std::make_shared<ob::DiscreteStateSpace>(0, 2), 1.0);
            auto r = std::make_shared<ob::RealVectorStateSpace>(1);
            r->setBounds(0, 1);
            cs->addSubspace(r, 1.0);
            cs->lock();
            c.space = cs;
            c.lattice = product({scalars({0, 1, 2}), scalars({0, 0.4, 1})});
            c.plainCompound = true;
            c.reparamExempt = true;
            c.hasDiscrete = true;
        }
        else
        {
            fprintf(stderr, "unknown space %s\n", name.c_str());
            exit(2);
        }
        c.space->setup();
        return c;
    }

    // a pool of allocated lattice states
    struct Pool
    {
        ob::StateSpacePtr sp;
        std::vector<ob::State *> st;
        Pool(const SpaceCfg &c) : sp(c.space)
        {
            for (auto &co : c.lattice)
            {
                ob::State *s = sp->allocState();
                setCoords(sp, s, co);
                st.push_back(s);
            }
        }
        ~Pool()
        {
            for (auto *s : st)
                sp->freeState(s);
        }
    };
}  // namespace vsp
