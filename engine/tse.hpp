// tse.hpp — engine E4, explorer side: preemption-bounded DFS over schedules of real threads running under libvsrt.
// Every execution runs in a forked child (clean process state, deadlocks and crashes are contained); the child reports
// its scheduling points, observation, oracle failures and the races its in-schedule monitor saw through a pipe.
#pragma once
#include "vf.hpp"
#include <cxxabi.h>
#include <fcntl.h>
#include <sys/wait.h>
#include <unistd.h>

extern "C"
{
    void vs_config(const unsigned long *schedPc, int nSched, const unsigned long *atomicPc, int nAtomic, long long horizon_ns, long max_points);
    void vs_set_hooks(void (*fatal_hook)(const char *), void (*thread_hook)(int));
    void vs_begin(const int *ch, int n);
    int vs_end();
    int vs_point(int i, int *choice, int *nenabled, int *preempt, int *thread);
    int vs_nraces();
    void vs_race(int i, char *f1, char *f2, int cap, int *w1, int *w2, unsigned long *pc1, unsigned long *pc2);
    int vs_new_shared_atomics(unsigned long *out, int cap);
    long vs_naccess();
    long long vs_now_ns();
    long long vs_elapsed_ns();
    int vs_self();
}

namespace tse
{
    struct Point
    {
        int choice, nen, preempt, thread;
    };
    struct RaceRec
    {
        std::string f1, f2;  // demangled function names
        bool w1, w2;
        unsigned long pc1, pc2;
        std::string str() const
        {
            return std::string(w1 ? "W" : "R") + "@" + f1 + " / " + (w2 ? "W" : "R") + "@" + f2;
        }
        // order-independent signature on function names
        std::string sig() const
        {
            std::string a = f1, b = f2;
            if (b < a)
                std::swap(a, b);
            return a + " ~ " + b;
        }
    };
    struct Out
    {
        std::string obs;                                        // observation of this execution
        std::vector<std::pair<std::string, std::string>> fails;  // oracle failures (key, what)
        void fail(const std::string &k, const std::string &w)
        {
            fails.push_back({k, w});
        }
    };
    struct Exec
    {
        std::vector<Point> pts;
        Out out;
        std::vector<RaceRec> races;
        std::vector<unsigned long> newAtomics;
        std::string fatal;  // DEADLOCK / LIVELOCK / STEP-HORIZON / crash signal / timeout ; empty = ran to completion
        long accesses = 0;
        long long virtualNs = 0;
        bool diverged = false;
    };

    inline std::string demangle(const char *n)
    {
        int st = 0;
        char *d = abi::__cxa_demangle(n, nullptr, nullptr, &st);
        std::string s = d ? d : n;
        free(d);
        auto p = s.find('(');
        if (p != std::string::npos && s.compare(0, 9, "operator(") != 0)
            s = s.substr(0, p);
        return s;
    }

    // ---- child-side serialisation ----
    inline int &pipeFd()
    {
        static int fd = -1;
        return fd;
    }
    inline Out *&curOut()
    {
        static Out *o = nullptr;
        return o;
    }
    inline void wstr(std::string &b, const std::string &s)
    {
        uint32_t n = s.size();
        b.append((char *)&n, 4);
        b.append(s);
    }
    inline void emit(const char *fatal)
    {
        std::string b;
        wstr(b, fatal ? fatal : "");
        int n = 0;
        Point p;
        std::string pts;
        while (vs_point(n, &p.choice, &p.nen, &p.preempt, &p.thread))
        {
            pts.append((char *)&p, sizeof p);
            ++n;
        }
        wstr(b, pts);
        Out *o = curOut();
        wstr(b, o ? o->obs : "");
        uint32_t nf = o ? o->fails.size() : 0;
        b.append((char *)&nf, 4);
        for (uint32_t i = 0; i < nf; ++i)
        {
            wstr(b, o->fails[i].first);
            wstr(b, o->fails[i].second);
        }
        uint32_t nr = vs_nraces();
        b.append((char *)&nr, 4);
        for (uint32_t i = 0; i < nr; ++i)
        {
            char f1[512], f2[512];
            int w1, w2;
            unsigned long p1, p2;
            vs_race(i, f1, f2, sizeof f1, &w1, &w2, &p1, &p2);
            wstr(b, f1);
            wstr(b, f2);
            b.append((char *)&w1, 4);
            b.append((char *)&w2, 4);
            b.append((char *)&p1, 8);
            b.append((char *)&p2, 8);
        }
        unsigned long at[4096];
        uint32_t na = vs_new_shared_atomics(at, 4096);
        b.append((char *)&na, 4);
        b.append((char *)at, na * 8);
        long acc = vs_naccess();
        long long vt = vs_elapsed_ns();
        b.append((char *)&acc, 8);
        b.append((char *)&vt, 8);
        size_t off = 0;
        while (off < b.size())
        {
            ssize_t k = write(pipeFd(), b.data() + off, b.size() - off);
            if (k <= 0)
                break;
            off += k;
        }
    }
    inline void fatalHook(const char *kind)
    {
        emit(kind);
        _exit(3);
    }

    struct Sets
    {
        std::set<unsigned long> schedPCs, atomicPCs;
    };

    struct Explorer
    {
        int P = 1;                       // preemption bound
        long maxSchedules = 50000;       // cap (reported when hit)
        long long horizonNs = 60LL * 1000000000LL;
        long maxPoints = 20000;
        double wallPerExec = 20;         // seconds
        bool promoteRacy = true;         // racy call sites become scheduling points in the next round
        std::function<void(Out &)> body;
        std::function<void(int)> threadHook;  // runs at the start of every created thread (e.g. installs a per-thread RNG oracle)
        std::function<bool()> expired;
        // results
        Sets sets;
        long schedules = 0, points = 0, preemptedSchedules = 0;
        int rounds = 0;
        bool capHit = false, cut = false;
        std::map<std::string, RaceRec> racesSeen;                  // by sig
        std::map<std::string, long> racesCount;
        std::map<std::string, long> outcomes;                      // obs -> count
        std::map<std::string, std::pair<std::string, std::vector<int>>> failures;  // key -> (what, schedule)
        std::map<std::string, long> failureCount;
        std::vector<std::vector<int>> sampleSchedules;
        long long maxVirtualNs = 0;
        long maxAccesses = 0;
        int maxThreads = 1;

        static std::function<void(int)> &hookSlot()
        {
            static std::function<void(int)> h;
            return h;
        }
        static void threadTramp(int id)
        {
            if (hookSlot())
                hookSlot()(id);
        }

        Exec runOne(const std::vector<int> &prefix)
        {
            Exec x;
            int fd[2];
            if (pipe(fd))
                exit(2);
            fflush(stdout);
            fflush(stderr);
            pid_t pid = fork();
            if (pid == 0)
            {
                close(fd[0]);
                pipeFd() = fd[1];
                int dn = open("/dev/null", O_WRONLY);
                if (!getenv("TSE_VERBOSE"))
                    dup2(dn, 2);
                std::vector<unsigned long> s(sets.schedPCs.begin(), sets.schedPCs.end()), at(sets.atomicPCs.begin(), sets.atomicPCs.end());
                vs_config(s.data(), (int)s.size(), at.data(), (int)at.size(), horizonNs, maxPoints);
                hookSlot() = threadHook;
                vs_set_hooks(&fatalHook, &threadTramp);
                Out out;
                curOut() = &out;
                alarm((unsigned)wallPerExec);
                vs_begin(prefix.data(), (int)prefix.size());
                body(out);
                vs_end();
                emit(nullptr);
                _exit(0);
            }
            close(fd[1]);
            std::string buf;
            char tmp[65536];
            ssize_t k;
            while ((k = read(fd[0], tmp, sizeof tmp)) > 0)
                buf.append(tmp, k);
            close(fd[0]);
            int st = 0;
            waitpid(pid, &st, 0);
            // parse
            const char *p = buf.data(), *e = p + buf.size();
            auto rstr = [&](std::string &s) {
                if (p + 4 > e)
                    return false;
                uint32_t n = *(uint32_t *)p;
                p += 4;
                if (p + n > e)
                    return false;
                s.assign(p, n);
                p += n;
                return true;
            };
            std::string pts;
            bool ok = rstr(x.fatal) && rstr(pts) && rstr(x.out.obs);
            if (ok)
            {
                x.pts.assign((Point *)pts.data(), (Point *)(pts.data() + pts.size()));
                uint32_t nf = *(uint32_t *)p;
                p += 4;
                for (uint32_t i = 0; i < nf; ++i)
                {
                    std::string a, b;
                    rstr(a);
                    rstr(b);
                    x.out.fails.push_back({a, b});
                }
                uint32_t nr = *(uint32_t *)p;
                p += 4;
                for (uint32_t i = 0; i < nr; ++i)
                {
                    RaceRec r;
                    std::string a, b;
                    rstr(a);
                    rstr(b);
                    r.f1 = demangle(a.c_str());
                    r.f2 = demangle(b.c_str());
                    r.w1 = *(int *)p;
                    p += 4;
                    r.w2 = *(int *)p;
                    p += 4;
                    r.pc1 = *(unsigned long *)p;
                    p += 8;
                    r.pc2 = *(unsigned long *)p;
                    p += 8;
                    x.races.push_back(r);
                }
                uint32_t na = *(uint32_t *)p;
                p += 4;
                for (uint32_t i = 0; i < na; ++i)
                {
                    x.newAtomics.push_back(*(unsigned long *)p);
                    p += 8;
                }
                x.accesses = *(long *)p;
                p += 8;
                x.virtualNs = *(long long *)p;
            }
            if (WIFSIGNALED(st))
                x.fatal = WTERMSIG(st) == SIGALRM ? "WALL-TIMEOUT" : "CRASH signal " + std::to_string(WTERMSIG(st));
            else if (WIFEXITED(st) && WEXITSTATUS(st) == 4)
                x.diverged = true;
            else if (!ok && x.fatal.empty())
                x.fatal = "CHILD-EXIT " + std::to_string(WIFEXITED(st) ? WEXITSTATUS(st) : -1);
            return x;
        }

        void record(const Exec &x, const std::vector<int> &sched)
        {
            ++schedules;
            points += x.pts.size();
            bool pre = false;
            for (auto &p : x.pts)
            {
                if (p.choice != 0 && p.preempt)
                    pre = true;
                maxThreads = std::max(maxThreads, p.thread + 1);
            }
            preemptedSchedules += pre;
            maxVirtualNs = std::max(maxVirtualNs, x.virtualNs);
            maxAccesses = std::max(maxAccesses, x.accesses);
            outcomes[x.fatal.empty() ? x.out.obs : "<" + x.fatal + ">"]++;
            for (auto &f : x.out.fails)
            {
                if (!failures.count(f.first))
                    failures[f.first] = {f.second, sched};
                failureCount[f.first]++;
            }
            if (!x.fatal.empty())
            {
                std::string k = x.fatal.substr(0, x.fatal.find(':'));
                if (!failures.count("FATAL|" + k))
                    failures["FATAL|" + k] = {x.fatal, sched};
                failureCount["FATAL|" + k]++;
            }
            for (auto &r : x.races)
            {
                racesSeen[r.sig()] = r;
                racesCount[r.sig()]++;
            }
            if (sampleSchedules.size() < 3 && pre)
                sampleSchedules.push_back(sched);
        }

        void dfs(const std::vector<int> &prefix, std::set<unsigned long> &newSched, std::set<unsigned long> &newAtomic)
        {
            if (cut)
                return;
            if (schedules >= maxSchedules)
            {
                capHit = true;
                return;
            }
            if (expired && expired())
            {
                cut = true;
                return;
            }
            Exec x = runOne(prefix);
            if (x.diverged)
            {
                fprintf(stderr, "INTERNAL: schedule replay diverged (hidden nondeterminism in the harness body)\n");
                exit(2);
            }
            std::vector<int> sched;
            for (auto &p : x.pts)
                sched.push_back(p.choice);
            record(x, sched);
            for (auto a : x.newAtomics)
                newAtomic.insert(a);
            if (promoteRacy)
                for (auto &r : x.races)
                {
                    newSched.insert(r.pc1);
                    newSched.insert(r.pc2);
                }
            int cost = 0;
            for (size_t i = 0; i < x.pts.size(); ++i)
            {
                auto &p = x.pts[i];
                if (i >= prefix.size())
                    for (int alt = 1; alt < p.nen; ++alt)
                    {
                        int c = cost + (p.preempt ? 1 : 0);
                        if (c > P)
                            continue;
                        std::vector<int> np(sched.begin(), sched.begin() + i);
                        np.push_back(alt);
                        dfs(np, newSched, newAtomic);
                    }
                if (p.choice != 0 && p.preempt)
                    ++cost;
            }
        }

        // explores to the fixpoint of the shared-atomic / racy site sets (frozen during a round)
        void explore()
        {
            for (rounds = 1; rounds <= 6; ++rounds)
            {
                std::set<unsigned long> ns, na;
                long before = schedules;
                // statistics describe the LAST (most refined) round
                schedules = 0;
                points = 0;
                preemptedSchedules = 0;
                outcomes.clear();
                capHit = false;
                (void)before;
                dfs({}, ns, na);
                bool grew = false;
                for (auto a : na)
                    grew |= sets.atomicPCs.insert(a).second;
                for (auto a : ns)
                    grew |= sets.schedPCs.insert(a).second;
                if (!grew || cut)
                    break;
            }
        }
    };
}  // namespace tse
