// choice.hpp — engine E1: choice oracle (owns every random draw through hook H1 and every harness-level choice) and the
// deviation-bounded explorer (DBE): all executions with <= D departures from the default answer stream among the first N
// choice points, plus full products over the first d points.
#pragma once
#include <ompl/util/RandomNumbers.h>
#include <cmath>
#include <cstdio>
#include <cstdlib>
#include <functional>
#include <map>
#include <stdexcept>
#include <string>
#include <vector>
#include <unistd.h>

namespace vc
{
    enum Kind : unsigned char
    {
        U01 = 0,
        N01 = 1,
        UNIT = 2,
        PICK = 3,
        STATE = 4,
        CONTROL = 5,
        STEPS = 6,
        TICK = 7
    };
    inline const char *kindName(int k)
    {
        static const char *n[] = {"U01", "N01", "UNIT", "PICK", "STATE", "CONTROL", "STEPS", "TICK"};
        return n[k];
    }

    struct Horizon : std::runtime_error
    {
        Horizon() : std::runtime_error("draw horizon reached")
        {
        }
    };

    inline double frac(double x)
    {
        return x - std::floor(x);
    }
    // fixed, seed-independent default stream (additive golden-ratio recurrence; position-indexed, so replay is exact)
    // salts >= 1000 select a hashed (splitmix64) stream instead: position-indexed as well, but without the lattice structure of
    // the additive recurrence (XXL's layered search starves on the latter: it creates no states at all)
    inline double defU(size_t i, unsigned salt = 0)
    {
        if (salt >= 1000)
        {
            uint64_t z = (uint64_t)i * 0x9E3779B97F4A7C15ull + (uint64_t)salt * 0xD1B54A32D192ED03ull;
            z = (z ^ (z >> 30)) * 0xBF58476D1CE4E5B9ull;
            z = (z ^ (z >> 27)) * 0x94D049BB133111EBull;
            z ^= z >> 31;
            return (double)(z >> 11) * (1.0 / 9007199254740992.0);
        }
        return frac((double)(i + 1) * 0.6180339887498949 + salt * 0.7548776662466927);
    }
    // inverse normal CDF (Acklam), enough for a plausible default Gaussian stream
    inline double invNorm(double p)
    {
        static const double a[] = {-3.969683028665376e+01, 2.209460984245205e+02, -2.759285104469687e+02, 1.383577518672690e+02, -3.066479806614716e+01, 2.506628277459239e+00};
        static const double b[] = {-5.447609879822406e+01, 1.615858368580409e+02, -1.556989798598866e+02, 6.680131188771972e+01, -1.328068155288572e+01};
        static const double c[] = {-7.784894002430293e-03, -3.223964580411365e-01, -2.400758277161838e+00, -2.549732539343734e+00, 4.374664141464968e+00, 2.938163982698783e+00};
        static const double d[] = {7.784695709041462e-03, 3.224671290700398e-01, 2.445134137142996e+00, 3.754408661907416e+00};
        if (p < 1e-12)
            p = 1e-12;
        if (p > 1 - 1e-12)
            p = 1 - 1e-12;
        double q, r;
        if (p < 0.02425)
        {
            q = std::sqrt(-2 * std::log(p));
            return (((((c[0] * q + c[1]) * q + c[2]) * q + c[3]) * q + c[4]) * q + c[5]) / ((((d[0] * q + d[1]) * q + d[2]) * q + d[3]) * q + 1);
        }
        if (p > 1 - 0.02425)
        {
            q = std::sqrt(-2 * std::log(1 - p));
            return -(((((c[0] * q + c[1]) * q + c[2]) * q + c[3]) * q + c[4]) * q + c[5]) / ((((d[0] * q + d[1]) * q + d[2]) * q + d[3]) * q + 1);
        }
        q = p - 0.5;
        r = q * q;
        return (((((a[0] * r + a[1]) * r + a[2]) * r + a[3]) * r + a[4]) * r + a[5]) * q / (((((b[0] * r + b[1]) * r + b[2]) * r + b[3]) * r + b[4]) * r + 1);
    }

    struct Point
    {
        unsigned char kind;
        int arity;   // number of possible answers (index 0 = default)
        int answer;  // answer taken
    };

    struct Oracle : ompl::verif::RNGOracle
    {
        std::map<size_t, int> dev;  // deviations from the default stream: position -> answer index (>= 1)
        std::vector<Point> trace;
        size_t horizon = 200000;
        unsigned salt = 0;
        // alternative answers (index 1.. in this order)
        std::vector<double> ua = {0.0, 1.0 - 1.1102230246251565e-16, 1.1102230246251565e-16, 0.5, 0.03, 0.97, 0.25, 0.75};
        std::vector<double> na = {0.0, -8.0, 8.0, -1.0, 1.0, -1e-9, 1e-9};

        int take(unsigned char kind, int arity)
        {
            size_t pos = trace.size();
            if (pos >= horizon)
                throw Horizon();
            int ans = 0;
            auto it = dev.find(pos);
            if (it != dev.end())
            {
                ans = it->second;
                if (ans >= arity)
                {
                    // replaying a prefix must never diverge: hard internal error, never a finding
                    fprintf(stderr, "INTERNAL: replay divergence at choice %zu: answer %d of %d (%s)\n", pos, ans, arity, kindName(kind));
                    _exit(4);
                }
            }
            trace.push_back({kind, arity, ans});
            return ans;
        }
        double u01(ompl::RNG *) override
        {
            size_t pos = trace.size();
            int a = take(U01, 1 + (int)ua.size());
            return a == 0 ? defU(pos, salt) : ua[a - 1];
        }
        double n01(ompl::RNG *) override
        {
            size_t pos = trace.size();
            int a = take(N01, 1 + (int)na.size());
            return a == 0 ? invNorm(defU(pos, salt)) : na[a - 1];
        }
        bool unitVector(ompl::RNG *, std::vector<double> &v) override
        {
            size_t pos = trace.size();
            int n = (int)v.size();
            if (n == 0)
                return true;
            int a = take(UNIT, 1 + 2 * n + 3);
            for (auto &x : v)
                x = 0;
            if (a == 0)
            {
                // generic direction from the default stream
                double s = 0;
                for (int i = 0; i < n; ++i)
                {
                    v[i] = invNorm(defU(pos * 7 + i, salt + 11));
                    s += v[i] * v[i];
                }
                s = std::sqrt(s);
                if (s < 1e-12)
                {
                    v[0] = 1;
                    s = 1;
                }
                for (auto &x : v)
                    x /= s;
            }
            else if (a <= 2 * n)
                v[(a - 1) / 2] = ((a - 1) % 2) ? -1.0 : 1.0;
            else if (a == 2 * n + 1)
                for (auto &x : v)
                    x = 1.0 / std::sqrt((double)n);
            else if (a == 2 * n + 2)
                for (int i = 0; i < n; ++i)
                    v[i] = ((i % 2) ? -1.0 : 1.0) / std::sqrt((double)n);
            else
            {
                double s = 0;
                for (int i = 0; i < n; ++i)
                {
                    v[i] = std::sqrt(2.0 + i) - 1.2;  // fixed irrational direction
                    s += v[i] * v[i];
                }
                for (auto &x : v)
                    x /= std::sqrt(s);
            }
            return true;
        }
        int pickIndex(unsigned char kind, int n)
        {
            if (n <= 1)
                return 0;
            size_t pos = trace.size();
            int a = take(kind, n);
            int d = (int)(defU(pos, salt) * n);
            if (d >= n)
                d = n - 1;
            return (d + a) % n;
        }
        int pick(ompl::RNG *, int n) override
        {
            return pickIndex(PICK, n);
        }
    };

    inline std::string devJson(const std::map<size_t, int> &dev)
    {
        std::string s = "[";
        bool first = true;
        for (auto &d : dev)
        {
            s += (first ? "" : ",");
            s += "[" + std::to_string(d.first) + "," + std::to_string(d.second) + "]";
            first = false;
        }
        return s + "]";
    }

    // Deviation-bounded exploration. run(dev) executes once under the given deviations and returns the choice trace.
    // Enumerates every deviation set with |dev| <= D whose positions are < N and exist in the execution they extend
    // (CHESS-style: a child differs from its parent at one later position), in order of increasing |dev|.
    struct DBE
    {
        int D = 1;
        size_t N = 40;
        std::function<bool()> expired;            // deadline
        std::function<bool(unsigned char)> kinds;  // which kinds may deviate (default: all)
        long executions = 0;
        bool cut = false;
        // run returns the trace of the execution (must be deterministic given dev)
        void explore(const std::function<std::vector<Point>(const std::map<size_t, int> &)> &run)
        {
            std::vector<std::map<size_t, int>> level{{}};
            for (int d = 0; d <= D && !level.empty(); ++d)
            {
                std::vector<std::map<size_t, int>> next;
                for (auto &dev : level)
                {
                    if (expired && expired())
                    {
                        cut = true;
                        return;
                    }
                    std::vector<Point> tr = run(dev);
                    ++executions;
                    if (d == D)
                        continue;
                    size_t from = dev.empty() ? 0 : dev.rbegin()->first + 1;
                    for (size_t i = from; i < tr.size() && i < N; ++i)
                    {
                        if (kinds && !kinds(tr[i].kind))
                            continue;
                        for (int a = 1; a < tr[i].arity; ++a)
                        {
                            auto dv = dev;
                            dv[i] = a;
                            next.push_back(std::move(dv));
                        }
                    }
                }
                level.swap(next);
            }
        }
    };

    // full product over the first d choice points of the selected kinds (odometer over the recorded arities), everything
    // else at default. The position of the j-th selected point is fixed by the answers before it, so prefixes stay valid.
    struct Product
    {
        size_t depth = 3;
        std::function<bool()> expired;
        std::function<bool(unsigned char)> kinds;
        long executions = 0;
        bool cut = false;
        void explore(const std::function<std::vector<Point>(const std::map<size_t, int> &)> &run)
        {
            std::vector<int> cur;      // answers for the selected points 0..cur.size()-1
            std::vector<size_t> posOf;  // their positions in the trace
            for (;;)
            {
                if (expired && expired())
                {
                    cut = true;
                    return;
                }
                std::map<size_t, int> dev;
                for (size_t i = 0; i < cur.size(); ++i)
                    if (cur[i])
                        dev[posOf[i]] = cur[i];
                std::vector<Point> tr = run(dev);
                ++executions;
                posOf.clear();
                for (size_t i = 0; i < tr.size() && posOf.size() < depth; ++i)
                    if (!kinds || kinds(tr[i].kind))
                        posOf.push_back(i);
                size_t n = posOf.size();
                cur.resize(n, 0);
                long i = (long)n - 1;
                while (i >= 0 && cur[i] + 1 >= tr[posOf[i]].arity)
                    --i;
                if (i < 0)
                    return;
                cur[i]++;
                cur.resize(i + 1);
            }
        }
    };

    struct Install
    {
        Install(Oracle &o)
        {
            ompl::verif::rngOracle() = &o;
        }
        ~Install()
        {
            ompl::verif::rngOracle() = nullptr;
        }
    };
}  // namespace vc
