// C14 — Dubins / Reeds-Shepp: E3 over a lattice of pose pairs; independent six-word Dubins reference (each candidate word
// is validated by forward simulation before it counts), curve traced through interpolate().
#include <ompl/base/spaces/DubinsStateSpace.h>
#include <ompl/base/spaces/ReedsSheppStateSpace.h>
#include <ompl/util/Console.h>
#include "vf.hpp"
#include "asanhook.hpp"

namespace ob = ompl::base;
static const double PI = 3.14159265358979323846;
static double mod2pi(double x)
{
    double v = std::fmod(x, 2 * PI);
    if (v < 0)
        v += 2 * PI;
    // a turn within 1e-9 of a full circle is no turn (a full circle is never optimal)
    if (v > 2 * PI - 1e-9)
        v = 0;
    return v;
}
static double angDiff(double a, double b)
{
    double d = std::fmod(a - b, 2 * PI);
    if (d > PI)
        d -= 2 * PI;
    if (d < -PI)
        d += 2 * PI;
    return std::fabs(d);
}
struct Pose
{
    double x, y, th;
};
// simulate a word (types: 'L','S','R') with normalised lengths from pose p (unit radius), return end pose
static Pose simulate(Pose p, const char *w, const double len[3])
{
    for (int i = 0; i < 3; ++i)
    {
        double v = len[i];
        if (w[i] == 'L')
        {
            p.x += std::sin(p.th + v) - std::sin(p.th);
            p.y += -std::cos(p.th + v) + std::cos(p.th);
            p.th += v;
        }
        else if (w[i] == 'R')
        {
            p.x += -std::sin(p.th - v) + std::sin(p.th);
            p.y += std::cos(p.th - v) - std::cos(p.th);
            p.th -= v;
        }
        else
        {
            p.x += v * std::cos(p.th);
            p.y += v * std::sin(p.th);
        }
    }
    return p;
}
// shortest of the six canonical words from a to b for radius rho; returns length (in world units), +inf if none validated
static double refDubins(const Pose &a, const Pose &b, double rho, std::string *bestWord = nullptr, int *nValid = nullptr, bool *degenerate = nullptr)
{
    double dx = (b.x - a.x) / rho, dy = (b.y - a.y) / rho, d = std::hypot(dx, dy), phi = std::atan2(dy, dx);
    if (d < 1e-12)
        phi = 0;
    double alpha = mod2pi(a.th - phi), beta = mod2pi(b.th - phi);
    double sa = std::sin(alpha), sb = std::sin(beta), ca = std::cos(alpha), cb = std::cos(beta), cab = std::cos(alpha - beta);
    struct Cand
    {
        const char *w;
        double l[3];
    };
    std::vector<Cand> cs;
    double tmp, th, p, t, q;
    tmp = 2 + d * d - 2 * cab + 2 * d * (sa - sb);
    if (tmp >= -2e-6)
    {
        th = std::atan2(cb - ca, d + sa - sb);
        cs.push_back({"LSL", {mod2pi(-alpha + th), std::sqrt(std::max(tmp, 0.0)), mod2pi(beta - th)}});
    }
    tmp = 2 + d * d - 2 * cab + 2 * d * (sb - sa);
    if (tmp >= -2e-6)
    {
        th = std::atan2(ca - cb, d - sa + sb);
        cs.push_back({"RSR", {mod2pi(alpha - th), std::sqrt(std::max(tmp, 0.0)), mod2pi(-beta + th)}});
    }
    tmp = -2 + d * d + 2 * cab + 2 * d * (sa + sb);
    if (tmp >= -2e-6)
    {
        p = std::sqrt(std::max(tmp, 0.0));
        th = std::atan2(-ca - cb, d + sa + sb) - std::atan2(-2.0, p);
        cs.push_back({"LSR", {mod2pi(-alpha + th), p, mod2pi(-beta + th)}});
    }
    tmp = d * d - 2 + 2 * cab - 2 * d * (sa + sb);
    if (tmp >= -2e-6)
    {
        p = std::sqrt(std::max(tmp, 0.0));
        th = std::atan2(ca + cb, d - sa - sb) - std::atan2(2.0, p);
        cs.push_back({"RSL", {mod2pi(alpha - th), p, mod2pi(beta - th)}});
    }
    tmp = (6 - d * d + 2 * cab + 2 * d * (sa - sb)) / 8;
    if (std::fabs(tmp) <= 1 + 1e-7)
    {
        p = mod2pi(2 * PI - std::acos(std::max(-1.0, std::min(1.0, tmp))));
        t = mod2pi(alpha - std::atan2(ca - cb, d - sa + sb) + p / 2);
        q = mod2pi(alpha - beta - t + p);
        cs.push_back({"RLR", {t, p, q}});
    }
    tmp = (6 - d * d + 2 * cab + 2 * d * (sb - sa)) / 8;
    if (std::fabs(tmp) <= 1 + 1e-7)
    {
        p = mod2pi(2 * PI - std::acos(std::max(-1.0, std::min(1.0, tmp))));
        t = mod2pi(-alpha - std::atan2(ca - cb, d + sa - sb) + p / 2);
        q = mod2pi(beta - alpha - t + p);
        cs.push_back({"LRL", {t, p, q}});
    }
    // in the normalised frame: start (0,0,alpha), target (d,0,beta); a candidate counts only if simulation reaches the target
    double best = INFINITY;
    int valid = 0;
    for (auto &c : cs)
    {
        Pose e = simulate(Pose{0, 0, alpha}, c.w, c.l);
        if (std::hypot(e.x - d, e.y) < 2e-6 * (1 + d) && angDiff(e.th, beta) < 2e-6)
        {
            ++valid;
            double L = c.l[0] + c.l[1] + c.l[2];
            if (L < best)
            {
                best = L;
                if (bestWord)
                    *bestWord = c.w;
                if (degenerate)
                {
                    // the optimal word has a vanishing segment: the configuration sits on a boundary between word classes
                    *degenerate = false;
                    for (int k = 0; k < 3; ++k)
                        if (c.l[k] < 1e-3 || (c.w[k] != 'S' && c.l[k] > 2 * PI - 1e-3))
                            *degenerate = true;
                }
            }
        }
    }
    if (nValid)
        *nValid = valid;
    return best * rho;
}

struct Ctx
{
    std::shared_ptr<ob::DubinsStateSpace> dub, dubSym;
    std::shared_ptr<ob::ReedsSheppStateSpace> rs;
    double rho;
    int samples;
    Ctx(double r, int n) : rho(r), samples(n)
    {
        ob::RealVectorBounds b(2);
        b.setLow(-100);
        b.setHigh(100);
        dub = std::make_shared<ob::DubinsStateSpace>(r, false);
        dubSym = std::make_shared<ob::DubinsStateSpace>(r, true);
        rs = std::make_shared<ob::ReedsSheppStateSpace>(r);
        for (ob::SE2StateSpace *s : {(ob::SE2StateSpace *)dub.get(), (ob::SE2StateSpace *)dubSym.get(), (ob::SE2StateSpace *)rs.get()})
        {
            s->setBounds(b);
            s->setup();
        }
    }
};
static void setPose(ob::State *s, const Pose &p)
{
    auto *e = s->as<ob::SE2StateSpace::StateType>();
    e->setXY(p.x, p.y);
    e->setYaw(p.th);
}
static Pose getPose(const ob::State *s)
{
    auto *e = s->as<ob::SE2StateSpace::StateType>();
    return {e->getX(), e->getY(), e->getYaw()};
}
static double wrapYaw(double t)
{
    double v = std::fmod(t, 2 * PI);
    if (v < -PI)
        v += 2 * PI;
    else if (v >= PI)
        v -= 2 * PI;
    return v;
}

// traces the curve of `sp` from a to b; checks vehicle model, end pose, arc length, prefix law
static void traceCurve(Ctx &C, ob::SE2StateSpace *sp, const std::string &name, bool reversals, bool prefixLaw, const Pose &A, const Pose &B,
                       const std::function<void(const std::string &, const std::string &)> &fail)
{
    ob::State *a = sp->allocState(), *b = sp->allocState(), *s = sp->allocState(), *prev = sp->allocState();
    setPose(a, A);
    setPose(b, B);
    double d = sp->distance(a, b);
    double tol = 1e-6 * (1 + d);
    double euclid = std::hypot(B.x - A.x, B.y - A.y);
    if (d < euclid - tol)
        fail("C14|" + name + "|below-euclidean", "distance " + vf::jnum(d) + " is below the straight-line distance " + vf::jnum(euclid));
    int n = C.samples;
    double chordSum = 0;
    sp->copyState(prev, a);
    double ds = d / n;  // arc length per step (interpolation is by arc length)
    bool modelOk = true;
    for (int i = 1; i <= n; ++i)
    {
        sp->interpolate(a, b, (double)i / n, s);
        Pose p0 = getPose(prev), p1 = getPose(s);
        double chord = std::hypot(p1.x - p0.x, p1.y - p0.y), dth = angDiff(p1.th, p0.th);
        chordSum += chord;
        if (modelOk)
        {
            // curvature bound: heading cannot change faster than 1/rho per unit arc length
            if (dth > ds / C.rho + 2e-6 + 1e-6 * ds)
            {
                fail("C14|" + name + "|curvature", "between t=" + vf::jnum((double)(i - 1) / n) + " and t=" + vf::jnum((double)i / n) + " the heading turns by " + vf::jnum(dth) + " over an arc of " + vf::jnum(ds) + " (radius " + vf::jnum(C.rho) + ")");
                modelOk = false;
            }
            // no jumps: the chord cannot exceed the arc length of the step
            else if (chord > ds + 2e-6 + 1e-6 * ds)
            {
                fail("C14|" + name + "|jump", "between t=" + vf::jnum((double)(i - 1) / n) + " and t=" + vf::jnum((double)i / n) + " the position moves by " + vf::jnum(chord) + " over an arc of " + vf::jnum(ds));
                modelOk = false;
            }
            // the vehicle moves along its heading (backwards only for Reeds-Shepp)
            else if (chord > 1e-6 && !(reversals && chord < 0.9 * ds))  // (a step much shorter than its arc contains a cusp)
            {
                double dir = std::atan2(p1.y - p0.y, p1.x - p0.x);
                double mid = p0.th + 0.5 * wrapYaw(p1.th - p0.th);
                double off = angDiff(dir, mid), offBack = angDiff(dir, mid + PI);
                double allow = 1.5 * ds / C.rho + 1e-5;  // a step may contain a switch of segment
                if (!(off <= allow || (reversals && offBack <= allow)))
                {
                    fail("C14|" + name + "|sideways-motion", "between t=" + vf::jnum((double)(i - 1) / n) + " and t=" + vf::jnum((double)i / n) + " the vehicle moves at " + vf::jnum(std::min(off, offBack)) + " rad to its heading");
                    modelOk = false;
                }
            }
        }
        if (prefixLaw && (i % (n / 10) == 0))
        {
            double dp = sp->distance(a, s), want = (double)i / n * d;
            if (std::fabs(dp - want) > tol)
            {
                Pose M = getPose(s);
                std::string at = " [intermediate pose (" + vf::jnum(M.x) + "," + vf::jnum(M.y) + "," + vf::jnum(M.th) + ")]";
                // Is the failure confined to a classification boundary? Re-ask the library for a pose snapped to a 1e-5 grid:
                // if the snapped pose (at most 1.5e-5 away) is answered consistently with the prefix, the defect is a
                // discontinuity at a table boundary; otherwise it is robust (a general optimality error).
                std::string cls = "|robust";
                if (name == "dubins" && dp > want)
                {
                    bool deg = false;
                    double rr = refDubins(getPose(a), M, C.rho, nullptr, nullptr, &deg);
                    cls = (rr < dp - tol && deg) ? "|optimal-word-degenerate" : "|generic";
                }
                else if (dp > want)
                {
                    Pose S{std::round(M.x * 1e5) / 1e5, std::round(M.y * 1e5) / 1e5, wrapYaw(std::round(M.th * 1e5) / 1e5)};
                    ob::State *q = sp->allocState();
                    setPose(q, S);
                    double dsn = sp->distance(a, q);
                    sp->freeState(q);
                    if (dsn <= want + 1e-4)
                        cls = "|only-at-table-boundary";
                }
                fail("C14|" + name + "|prefix-not-shortest|" + (dp < want ? "shorter-way-exists" : "distance-exceeds-prefix") + cls,
                     "distance to the point at t=" + vf::jnum((double)i / n) + " is " + vf::jnum(dp) + " but t*total is " + vf::jnum(want) + at);
            }
        }
        sp->copyState(prev, s);
    }
    Pose E = getPose(s);
    if (std::hypot(E.x - B.x, E.y - B.y) > tol || angDiff(E.th, B.th) > tol)
        fail("C14|" + name + "|end-pose", "interpolate(.., 1) ends at (" + vf::jnum(E.x) + "," + vf::jnum(E.y) + "," + vf::jnum(E.th) + ") instead of the target");
    // the path-caching overload (the one the motion validators trace with): a loop that reuses one flag / path object must produce
    // the poses of the plain overload whatever parameter comes first - ascending from 0, descending from 1, or starting inside
    {
        ob::State *s2 = sp->allocState();
        static const std::vector<std::vector<double>> grids = {{0.0, 0.25, 0.5, 1.0}, {1.0, 0.6, 0.3, 0.0}, {0.4, 0.0, 1.0, 0.7}, {-0.5, 0.5, 1.5, 0.9}};
        for (size_t gi = 0; gi < grids.size(); ++gi)
        {
            bool first = true, bad = false;
            ob::DubinsStateSpace::DubinsPath dpath;
            ob::ReedsSheppStateSpace::ReedsSheppPath rpath;
            auto *D = dynamic_cast<ob::DubinsStateSpace *>(sp);
            auto *R = dynamic_cast<ob::ReedsSheppStateSpace *>(sp);
            for (double t : grids[gi])
            {
                if (D)
                    D->interpolate(a, b, t, first, dpath, s);
                else if (R)
                    R->interpolate(a, b, t, first, rpath, s);
                else
                    break;
                sp->interpolate(a, b, t, s2);
                Pose p = getPose(s), q = getPose(s2);
                // (at t = 0 / 1 the plain overload copies the end state, the cached one walks the float path: the solver's own tolerance)
                if (std::hypot(p.x - q.x, p.y - q.y) > tol || angDiff(p.th, q.th) > tol)
                {
                    fail("C14|" + name + "|cached-path-overload-differs", "tracing with the path-caching overload of interpolate() over the parameters of grid " + std::to_string(gi) + " gives (" + vf::jnum(p.x) + "," + vf::jnum(p.y) + "," + vf::jnum(p.th) + ") at t=" + vf::jnum(t) + ", the plain overload (" + vf::jnum(q.x) + "," + vf::jnum(q.y) + "," + vf::jnum(q.th) + ")");
                    bad = true;
                    break;
                }
            }
            if (bad)
                break;
        }
        sp->freeState(s2);
    }
    // summed chords converge to the arc length from below
    double slack = d * (ds / C.rho) * (ds / C.rho) / 24 + (reversals ? 4 : 2) * ds * 0 + tol;  // chord vs arc: 1 - (ds/rho)^2/24
    if (chordSum > d + tol)
        fail("C14|" + name + "|curve-longer-than-distance", "the traced curve is " + vf::jnum(chordSum) + " long, the reported distance is " + vf::jnum(d));
    else if (chordSum < d - slack - (d * 1e-4) - (reversals ? 5 * ds : 0))  // each cusp inside a step costs at most that step's arc
        fail("C14|" + name + "|curve-shorter-than-distance", "the traced curve is " + vf::jnum(chordSum) + " long, the reported distance is " + vf::jnum(d));
    for (ob::State *x : {a, b, s, prev})
        sp->freeState(x);
}

static std::string poseJson(const Pose &a, const Pose &b, double rho)
{
    return "{\"a\":[" + vf::jnum(a.x) + "," + vf::jnum(a.y) + "," + vf::jnum(a.th) + "],\"b\":[" + vf::jnum(b.x) + "," + vf::jnum(b.y) + "," + vf::jnum(b.th) + "],\"rho\":" + vf::jnum(rho) + "}";
}

static void checkPair(Ctx &C, const Pose &A, const Pose &B, const std::function<void(const std::string &, const std::string &)> &fail, vf::Report *rep)
{
    ob::State *a = C.dub->allocState(), *b = C.dub->allocState();
    setPose(a, A);
    setPose(b, B);
    double dAB = C.dub->distance(a, b), dBA = C.dub->distance(b, a);
    double tol = 1e-6 * (1 + dAB);
    std::string word;
    int nValid = 0;
    bool degenerate = false;
    double ref = refDubins(A, B, C.rho, &word, &nValid, &degenerate);
    if (std::isfinite(ref))
    {
        bool samePose = std::hypot(B.x - A.x, B.y - A.y) < 1e-6 && angDiff(A.th, B.th) < 1e-6;  // equal within the library's pose resolution
        if (samePose)
            ;
        else if (dAB > ref + tol)
        {
            std::string cls = degenerate ? "|optimal-word-degenerate" : "|generic";
            fail("C14|dubins|longer-than-shortest-word" + cls, "distance " + vf::jnum(dAB) + " exceeds the shortest canonical word " + word + " = " + vf::jnum(ref));
        }
        else if (dAB < ref - tol)
            fail("C14|dubins|shorter-than-all-six-words", "distance " + vf::jnum(dAB) + " is below every validated canonical word (shortest " + word + " = " + vf::jnum(ref) + ")");
    }
    else
        fail("C14|reference|no-word-validated", "internal: no canonical word reached the target in simulation");
    traceCurve(C, C.dub.get(), "dubins", false, true, A, B, fail);
    // symmetrised Dubins: min of both directions, symmetric
    {
        double s1 = C.dubSym->distance(a, b), s2 = C.dubSym->distance(b, a);
        if (std::fabs(s1 - s2) > tol)
            fail("C14|dubins-sym|asymmetric", "symmetrised Dubins distance " + vf::jnum(s1) + " vs " + vf::jnum(s2));
        if (std::fabs(s1 - std::min(dAB, dBA)) > tol)
            fail("C14|dubins-sym|not-min-of-directions", "symmetrised distance " + vf::jnum(s1) + " != min(" + vf::jnum(dAB) + "," + vf::jnum(dBA) + ")");
        traceCurve(C, C.dubSym.get(), "dubins-sym", true, false, A, B, fail);
    }
    // Reeds-Shepp
    {
        double r1 = C.rs->distance(a, b), r2 = C.rs->distance(b, a);
        double rtol = 1e-6 * (1 + r1);
        if (std::fabs(r1 - r2) > rtol)
            fail("C14|reeds-shepp|asymmetric", "Reeds-Shepp distance " + vf::jnum(r1) + " vs reverse " + vf::jnum(r2));
        if (r1 > dAB + tol || r1 > dBA + tol)
            fail("C14|reeds-shepp|exceeds-dubins", "Reeds-Shepp distance " + vf::jnum(r1) + " exceeds Dubins " + vf::jnum(std::min(dAB, dBA)));
        traceCurve(C, C.rs.get(), "reeds-shepp", true, true, A, B, fail);
        if (rep)
        {
            vf::Hash o;
            o.addd(std::round(r1 * 1e6));
            o.addd(std::round(dAB * 1e6));
            o.adds(word);
            rep->outcomes.insert(o.h);
        }
    }
    C.dub->freeState(a);
    C.dub->freeState(b);
}

static std::vector<double> headings(bool thorough)
{
    std::vector<double> h;
    for (int k = -2; k < 2; ++k)
    {
        h.push_back(k * PI / 2);
        h.push_back(k * PI / 2 + 1e-7);
        h.push_back(k * PI / 2 - 1e-3 < -PI ? k * PI / 2 + 1e-3 : k * PI / 2 - 1e-3);
        if (thorough)
            h.push_back(k * PI / 2 + PI / 4);
    }
    h.push_back(0.7);
    h.push_back(-2.3);
    for (auto &x : h)
        x = wrapYaw(x);
    return h;
}

int main(int argc, char **argv)
{
    ompl::msg::setLogLevel(ompl::msg::LOG_NONE);
    vf::Harness H;
    H.property = "C14";
    H.jobs = [](const vf::Args &a) {
        std::vector<std::string> j;
        std::vector<std::string> rh = a.thorough() ? std::vector<std::string>{"0.5", "1", "2"} : std::vector<std::string>{"0.5", "1"};
        auto hs = headings(a.thorough());
        for (auto &r : rh)
            for (size_t i = 0; i < hs.size(); ++i)
                j.push_back("rho" + r + "-h" + std::to_string(i));
        return j;
    };
    H.run = [](const std::string &job, const vf::Args &a, vf::Report &rep) {
        double rho = atof(job.c_str() + 3);
        size_t hi = atoi(job.c_str() + job.find("-h") + 2);
        auto hs = headings(a.thorough());
        Ctx C(rho, a.thorough() ? 400 : 100);
        int G = a.thorough() ? 17 : 9;
        Pose A{0, 0, hs[hi]};
        for (int ix = 0; ix < G; ++ix)
            for (int iy = 0; iy < G; ++iy)
                for (double th2 : hs)
                {
                    if (a.expired())
                    {
                        rep.exhaustive = false;
                        goto done;
                    }
                    Pose B{-4 + 8.0 * ix / (G - 1), -4 + 8.0 * iy / (G - 1), th2};
                    // add the near-degenerate variants on the centre cell: coincident position, collinear along the heading
                    std::vector<Pose> targets{B};
                    if (ix == G / 2 && iy == G / 2)
                    {
                        targets.push_back({0, 0, th2});  // coincident position (positions closer than the library's 1e-6 pose resolution but not identical are off the lattice)
                        targets.push_back({std::cos(A.th) * 1.7, std::sin(A.th) * 1.7, th2});
                        targets.push_back({0, 0.001, th2});
                        // targets a hair off collinear / quadrant configurations (classification-table boundaries)
                        targets.push_back({-1.4e-7 * std::sin(A.th), 2.7320508 * std::sin(A.th) + 1e-7, wrapYaw(th2 + 5e-8)});
                        targets.push_back({2.7320508 * std::cos(A.th) + 1.4e-7, 2.7320508 * std::sin(A.th), wrapYaw(A.th + PI / 2 + 5e-8 + (th2 > 0 ? 0 : PI))});
                    }
                    for (auto &T : targets)
                    {
                        double sep = std::hypot(T.x - A.x, T.y - A.y);
                        if (sep > 0 && sep < 1e-5)
                            continue;  // closer than the library's pose resolution but not identical: off the lattice
                        std::string pj = poseJson(A, T, rho);
                        checkPair(C, A, T, [&](const std::string &k, const std::string &w) { rep.fail(k, w, pj); }, &rep);
                        rep.evaluations++;
                        rep.transitions += 3 * C.samples;
                        rep.states++;
                        vf::Hash h;
                        h.adds(pj);
                        if (std::hypot(T.x, T.y) < 4 * rho)
                            rep.nontrivial.insert(h.h);
                        if (rep.samples.size() < 2 && (rep.evaluations % 397) == 0)
                            rep.sample(pj);
                    }
                }
    done:
        rep.rule = "from (0,0,theta1), theta1 in headings at quadrant boundaries +-{0,1e-7,1e-3} and generic; to a G x G position grid on [-4,4]^2 (closer than 4 radii and far) x the same headings, "
                   "plus coincident, collinear and nearly coincident targets; radii {0.5,1[,2]}; per pair: Dubins distance vs the shortest of six canonical words each validated by forward "
                   "simulation, curve traced through interpolate() at 100 (thorough 400) parameters (curvature bound, no jumps, motion along the heading, end pose, arc length), "
                   "prefix law at 10 parameters, symmetrised Dubins = min of both directions, Reeds-Shepp symmetric and <= Dubins; non-trivial = targets closer than four radii";
        rep.assumptions = {"tolerance 1e-6(1+length); positions closer than 1e-6 (DUBINS_EPS) but not identical are outside the lattice", "a turn within 1e-9 of a full circle counts as no turn in the reference",
                           "Reeds-Shepp optimality itself has no independent reference here (48 words): only symmetry, <= Dubins, the curve and the prefix law are decided"};
        rep.bounds["grid"] = std::to_string(G);
        rep.bounds["curve_samples"] = std::to_string(C.samples);
    };
    H.replay = [](const vf::JV &v) {
        Ctx C(v["rho"].d(), 400);
        Pose A{v["a"][0].d(), v["a"][1].d(), v["a"][2].d()}, B{v["b"][0].d(), v["b"][1].d(), v["b"][2].d()};
        bool failed = false;
        checkPair(C, A, B, [&](const std::string &k, const std::string &w) {
            printf("%s: %s\n", k.c_str(), w.c_str());
            failed = true;
        }, nullptr);
        return failed;
    };
    return vf::main(argc, argv, H);
}
