// C19 — concurrency (and the threaded half of C18). E4: real threads of the real (tsan-instrumented) library under the
// serialising scheduler libvsrt, ALL schedules with <= P preemptions, in-schedule happens-before race monitor.
// The same scenario bodies are also compiled with -DC19_FREERUN against the real libtsan (no scheduler): that free-running
// pass is the second, independent confirmation of a race the in-schedule monitor reports on the documented surface.
#ifdef C19_FREERUN
#include "vf.hpp"
#include <chrono>
namespace tse
{
    struct Out
    {
        std::string obs;
        std::vector<std::pair<std::string, std::string>> fails;
        void fail(const std::string &k, const std::string &w)
        {
            fails.push_back({k, w});
        }
    };
}
static long long vs_now_ns()
{
    return std::chrono::duration_cast<std::chrono::nanoseconds>(std::chrono::steady_clock::now().time_since_epoch()).count();
}
#else
#include "tse.hpp"
#endif
#include "path_oracle.hpp"
#include "planners.hpp"
#include "cost_oracle.hpp"
#include <ompl/base/SpaceInformation.h>
#include <ompl/base/ProblemDefinition.h>
#include <ompl/base/PlannerTerminationCondition.h>
#include <ompl/base/spaces/RealVectorStateSpace.h>
#include <ompl/datastructures/NearestNeighborsGNAT.h>
#include <ompl/geometric/PathGeometric.h>
#include <ompl/base/goals/GoalLazySamples.h>
#include <ompl/geometric/planners/rrt/RRT.h>
#include <ompl/geometric/planners/rrt/pRRT.h>
#include <ompl/geometric/planners/sbl/pSBL.h>
#include <ompl/geometric/planners/cforest/CForest.h>
#include <ompl/geometric/planners/prm/PRM.h>
#include <ompl/geometric/planners/AnytimePathShortening.h>
#include <ompl/util/Console.h>
#include <ompl/util/RandomNumbers.h>
#include <thread>
#include <sys/personality.h>
#include <unistd.h>

namespace ob = ompl::base;
namespace og = ompl::geometric;

// per-thread default-stream oracle: worker randomness is fixed, the schedule is the only thing enumerated
static thread_local vc::Oracle *t_oracle = nullptr;
static void installThreadOracle(int id)
{
    t_oracle = new vc::Oracle();
    t_oracle->salt = 100 + id;
    t_oracle->horizon = 5000000;
    ompl::verif::rngOracle() = t_oracle;
}

// ------------------------------------------------------------------ part 1: documented thread-safe surface
static void scMotion(tse::Out &out)
{
    auto sp = std::make_shared<ob::RealVectorStateSpace>(2);
    sp->setBounds(0, 4);
    auto si = std::make_shared<ob::SpaceInformation>(sp);
    si->setStateValidityChecker([](const ob::State *s) {
        auto *v = s->as<ob::RealVectorStateSpace::StateType>()->values;
        return !(v[0] > 1.6 && v[0] < 2.4);  // a wall
    });
    si->setStateValidityCheckingResolution(0.05);
    si->setup();
    ob::ScopedState<> a(sp), b(sp), c(sp);
    a[0] = 0.5;
    a[1] = 0.5;
    b[0] = 1.5;
    b[1] = 3.0;
    c[0] = 3.5;
    c[1] = 0.5;
    bool r[4] = {false, false, false, false};
    bool v[2] = {false, false};
    std::thread t1([&] {
        r[0] = si->checkMotion(a.get(), b.get());
        r[1] = si->checkMotion(a.get(), c.get());
        v[0] = si->isValid(a.get());
    });
    std::thread t2([&] {
        r[2] = si->checkMotion(b.get(), a.get());
        std::pair<ob::State *, double> lv(nullptr, 0.0);
        r[3] = si->checkMotion(b.get(), c.get(), lv);
        v[1] = si->isValid(c.get());
    });
    t1.join();
    t2.join();
    unsigned nv = si->getMotionValidator()->getValidMotionCount(), ni = si->getMotionValidator()->getInvalidMotionCount();
    out.obs = std::to_string(r[0]) + std::to_string(r[1]) + std::to_string(r[2]) + std::to_string(r[3]) + " valid=" + std::to_string(nv) + " invalid=" + std::to_string(ni);
    if (!(r[0] && !r[1] && r[2] && !r[3] && v[0] && v[1]))
        out.fail("C19|motion|verdict", "concurrent checkMotion/isValid verdicts differ from the sequential ones: " + out.obs);
    if (nv + ni != 4 || nv != 2 || ni != 2)
        out.fail("C19|motion|counter-lost-update", "after 4 checkMotion calls (2 valid, 2 invalid) the counters read valid=" + std::to_string(nv) + " invalid=" + std::to_string(ni));
}

struct GnatPt
{
    double x, y;
    bool operator==(const GnatPt &o) const
    {
        return x == o.x && y == o.y;
    }
    bool operator!=(const GnatPt &o) const
    {
        return !(*this == o);
    }
};
static std::ostream &operator<<(std::ostream &o, const GnatPt &p)
{
    return o << p.x << ',' << p.y;
}
template class ompl::NearestNeighborsGNAT<GnatPt>;  // explicit instantiation: named, exported symbols for the race reports
static void scGnat(tse::Out &out)
{
    using P = GnatPt;
    ompl::NearestNeighborsGNAT<P> nn(2, 2, 3, 2);
    nn.setDistanceFunction([](const P &a, const P &b) { return std::fabs(a.x - b.x) + std::fabs(a.y - b.y); });
    std::vector<P> pts;
    for (int i = 0; i < 4; ++i)
        for (int j = 0; j < 3; ++j)
            pts.push_back({(double)i, (double)j});
    nn.add(pts);
    auto brute = [&](P q, size_t k) {
        std::vector<double> d;
        for (auto &p : pts)
            d.push_back(std::fabs(p.x - q.x) + std::fabs(p.y - q.y));
        std::sort(d.begin(), d.end());
        d.resize(std::min(k, d.size()));
        return d;
    };
    auto dists = [&](P q, const std::vector<P> &r) {
        std::vector<double> d;
        for (auto &p : r)
            d.push_back(std::fabs(p.x - q.x) + std::fabs(p.y - q.y));
        return d;
    };
    bool ok1 = true, ok2 = true;
    std::thread t1([&] {
        P q{0.2, 1.9};
        P r = nn.nearest(q);
        ok1 &= dists(q, {r}) == brute(q, 1);
        std::vector<P> k;
        nn.nearestK(P{2.6, 0.1}, 3, k);
        ok1 &= dists(P{2.6, 0.1}, k) == brute(P{2.6, 0.1}, 3);
        // a query that needs EVERY element: a child that is skipped (or visited twice) at any internal node shows in the answer
        nn.nearestK(P{1.1, 0.9}, pts.size(), k);
        ok1 &= dists(P{1.1, 0.9}, k) == brute(P{1.1, 0.9}, pts.size());
    });
    std::thread t2([&] {
        std::vector<P> k;
        nn.nearestR(P{1.5, 1.5}, 1.0, k);
        std::vector<double> want;
        for (double d : brute(P{1.5, 1.5}, 100))
            if (d <= 1.0)
                want.push_back(d);
        ok2 &= dists(P{1.5, 1.5}, k) == want;
        P r = nn.nearest(P{3.4, 2.2});
        ok2 &= dists(P{3.4, 2.2}, {r}) == brute(P{3.4, 2.2}, 1);
        nn.nearestR(P{2.2, 1.4}, 100.0, k);
        ok2 &= dists(P{2.2, 1.4}, k) == brute(P{2.2, 1.4}, pts.size());
    });
    t1.join();
    t2.join();
    out.obs = std::string(ok1 ? "ok" : "WRONG") + "/" + (ok2 ? "ok" : "WRONG");
    if (!ok1 || !ok2)
        out.fail("C19|gnat|wrong-answer", "a concurrent query on the shared GNAT returned something else than brute force");
}

static void scRng(tse::Out &out)
{
    // the REAL generator here: construction (seed hand-out) and state-space construction/destruction (name registry)
    unsigned seeds[4] = {0, 0, 0, 0};
    std::string names[2];
    std::thread t1([&] {
        ompl::RNG a, b;
        seeds[0] = a.getLocalSeed();
        seeds[1] = b.getLocalSeed();
        auto s = std::make_shared<ob::RealVectorStateSpace>(2);
        names[0] = s->getName();
    });
    std::thread t2([&] {
        ompl::RNG a, b;
        seeds[2] = a.getLocalSeed();
        seeds[3] = b.getLocalSeed();
        auto s = std::make_shared<ob::RealVectorStateSpace>(3);
        names[1] = s->getName();
    });
    t1.join();
    t2.join();
    std::set<unsigned> ds(seeds, seeds + 4);
    out.obs = std::to_string(ds.size()) + " distinct seeds, names " + (names[0] != names[1] ? "distinct" : "EQUAL");
    if (ds.size() != 4)
        out.fail("C19|rng|duplicate-seed", "two generators created concurrently received the same seed");
    if (names[0] == names[1])
        out.fail("C19|statespace|duplicate-name", "two state spaces created concurrently received the same default name " + names[0]);
}

static void scSolutions(tse::Out &out)
{
    auto sp = std::make_shared<ob::RealVectorStateSpace>(1);
    sp->setBounds(0, 10);
    auto si = std::make_shared<ob::SpaceInformation>(sp);
    si->setup();
    auto pdef = std::make_shared<ob::ProblemDefinition>(si);
    auto mk = [&](double len) {
        auto p = std::make_shared<og::PathGeometric>(si);
        ob::ScopedState<> a(sp), b(sp);
        a[0] = 0;
        b[0] = len;
        p->append(a.get());
        p->append(b.get());
        return p;
    };
    auto p1 = mk(5), p2 = mk(3), p3 = mk(7);
    bool consistent = true;
    std::string why;
    std::thread t1([&] {
        pdef->addSolutionPath(p1, true, 0.5);  // approximate
        pdef->addSolutionPath(p2, false, 0.0);  // exact, shorter
        pdef->addSolutionPath(p3, false, 0.0);  // exact, longer
    });
    std::thread t2([&] {
        for (int i = 0; i < 3; ++i)
        {
            auto sols = pdef->getSolutions();
            bool exact = pdef->hasExactSolution();
            auto top = pdef->getSolutionPath();
            // every snapshot is the ordered content after a prefix of the insertions: {}, {p1}, {p2,p1}, {p2,p3,p1}
            std::vector<ob::PathPtr> got;
            for (auto &s : sols)
                got.push_back(s.path_);
            std::vector<std::vector<ob::PathPtr>> legal = {{}, {p1}, {p2, p1}, {p2, p3, p1}};
            if (std::find(legal.begin(), legal.end(), got) == legal.end())
            {
                consistent = false;
                why = "getSolutions() returned a list that is not the ordered content after any prefix of the insertions";
            }
            (void)exact;
            if (top && top != p1 && top != p2)
            {
                consistent = false;
                why = "getSolutionPath() returned a path that is never the best";
            }
        }
    });
    t1.join();
    t2.join();
    auto fin = pdef->getSolutions();
    out.obs = std::string(consistent ? "consistent" : "INCONSISTENT") + " final=" + std::to_string(fin.size());
    if (!consistent)
        out.fail("C19|solutions|inconsistent-read", why);
    if (fin.size() != 3 || fin[0].path_ != p2 || fin[2].path_ != p1)
        out.fail("C19|solutions|final-set", "after all insertions the solution set is not {p2,p3,p1}");
}

struct NullHandler : ompl::msg::OutputHandler
{
    long n = 0;
    void log(const std::string &, ompl::msg::LogLevel, const char *, int) override
    {
        ++n;
    }
};
static void scLogging(tse::Out &out)
{
    static NullHandler h1, h2;
    ompl::msg::setLogLevel(ompl::msg::LOG_INFO);
    ompl::msg::useOutputHandler(&h1);
    std::thread t1([&] {
        OMPL_INFORM("message %d", 1);
        OMPL_WARN("message %d", 2);
    });
    std::thread t2([&] {
        ompl::msg::useOutputHandler(&h2);
        OMPL_INFORM("message %d", 3);
        ompl::msg::restorePreviousOutputHandler();
    });
    t1.join();
    t2.join();
    ompl::msg::setLogLevel(ompl::msg::LOG_NONE);
    out.obs = "delivered=" + std::to_string(h1.n + h2.n);
    if (h1.n + h2.n != 3)
        out.fail("C19|logging|lost-message", "3 messages were logged but the handlers received " + std::to_string(h1.n + h2.n));
}

// logging while another thread switches the output OFF and back on: every message is delivered once or dropped, nothing else
static void scLoggingOff(tse::Out &out)
{
    static NullHandler h1;
    h1.n = 0;
    ompl::msg::setLogLevel(ompl::msg::LOG_INFO);
    ompl::msg::useOutputHandler(&h1);
    std::thread t1([&] {
        OMPL_INFORM("message %d", 1);
        OMPL_WARN("message %d", 2);
    });
    std::thread t2([&] {
        ompl::msg::noOutputHandler();
        ompl::msg::restorePreviousOutputHandler();
    });
    t1.join();
    t2.join();
    bool restored = ompl::msg::getOutputHandler() == &h1;
    ompl::msg::setLogLevel(ompl::msg::LOG_NONE);
    out.obs = "delivered=" + std::to_string(h1.n) + " restored=" + std::to_string(restored);
    if (h1.n > 2)
        out.fail("C19|logging|duplicated-message", "2 messages were logged but the handler received " + std::to_string(h1.n));
    if (!restored)
        out.fail("C19|logging|handler-not-restored", "after noOutputHandler(); restorePreviousOutputHandler() the original handler is not installed");
}

static void scTerminate(tse::Out &out)
{
    ob::PlannerTerminationCondition ptc([] { return false; });
    bool seen[3] = {false, false, false};
    std::thread t1([&] {
        for (int i = 0; i < 3; ++i)
            seen[i] = ptc.eval();
    });
    std::thread t2([&] { ptc.terminate(); });
    t1.join();
    t2.join();
    bool after = ptc.eval();
    out.obs = std::to_string(seen[0]) + std::to_string(seen[1]) + std::to_string(seen[2]) + std::to_string(after);
    if ((seen[0] && !seen[1]) || (seen[1] && !seen[2]) || !after)
        out.fail("C19|terminate|reverted-or-lost", "after terminate() the condition reverted to false or never became true: " + out.obs);
}

// C18, periodic form: a thread evaluates the predicate every period; eval() must be true no later than one period after
// the predicate, never revert after terminate(), and the destructor must join
static void scPeriodic(tse::Out &out)
{
    const long long T0 = vs_now_ns();
    const double period = 0.002;
    const long long flipAt = T0 + 3000000;  // predicate becomes true at +3 ms (virtual)
    long long firstTrue = -1;
    bool reverted = false;
    {
        ob::PlannerTerminationCondition ptc([flipAt] { return vs_now_ns() >= flipAt; }, period);
        bool was = false;
        for (int i = 0; i < 12; ++i)
        {
            bool v = ptc.eval();
            if (v && firstTrue < 0)
                firstTrue = vs_now_ns();
            if (was && !v)
                reverted = true;
            was |= v;
            std::this_thread::sleep_for(std::chrono::milliseconds(1));
        }
        // destructor joins the evaluation thread here
    }
    long long lag = firstTrue < 0 ? -1 : firstTrue - flipAt;
    out.obs = firstTrue < 0 ? "never-true" : (lag <= (long long)(period * 1e9) + 1100000 ? "true-within-one-period" : "LATE");
    // the evaluator polls once per millisecond, so the observable bound is one period + one polling interval
    if (firstTrue < 0)
        out.fail("C18|periodic|never-true", "the periodic condition never became true within 12 ms although the predicate flipped at +3 ms");
    else if (lag > (long long)(period * 1e9) + 1100000)
        out.fail("C18|periodic|late", "the periodic condition became true " + std::to_string(lag) + " ns after the predicate (period " + std::to_string((long long)(period * 1e9)) + " ns)");
    if (reverted)
        out.fail("C18|periodic|reverted", "the periodic condition went back to false");
}
static void scPeriodicTerminate(tse::Out &out)
{
    bool reverted = false, sawTrue = false;
    {
        ob::PlannerTerminationCondition ptc([] { return false; }, 0.002);
        std::thread t([&] { ptc.terminate(); });
        bool was = false;
        for (int i = 0; i < 4; ++i)
        {
            bool v = ptc.eval();
            if (was && !v)
                reverted = true;
            was |= v;
            std::this_thread::sleep_for(std::chrono::milliseconds(1));
        }
        t.join();
        sawTrue = ptc.eval();
    }
    out.obs = std::string(sawTrue ? "true" : "FALSE") + (reverted ? " REVERTED" : "");
    if (!sawTrue || reverted)
        out.fail("C18|periodic|terminate", "terminate() on a periodic condition was lost or reverted");
}

// ------------------------------------------------------------------ part 2: multi-threaded planners
static void scPlanner(const std::string &which, tse::Out &out)
{
    vw::Cfg c;
    c.planner = "RRT";  // placeholder for Problem's own planner slot (unused)
    c.map = which.find("wall") != std::string::npos ? "wallgap4" : "empty4";
    c.budget = 30;
    std::unique_ptr<vw::Problem> P = std::make_unique<vw::Problem>(c);
    ob::PlannerPtr pl;
    std::string name = which.substr(0, which.find('-'));
    if (name == "pRRT")
    {
        auto p = std::make_shared<og::pRRT>(P->si);
        p->setThreadCount(2);
        pl = p;
    }
    else if (name == "pSBL")
    {
        auto p = std::make_shared<og::pSBL>(P->si);
        p->setThreadCount(2);
        pl = p;
    }
    else if (name == "CForest")
    {
        auto p = std::make_shared<og::CForest>(P->si);
        p->setNumThreads(2);
        pl = p;
    }
    else if (name == "PRM")
        pl = std::make_shared<og::PRM>(P->si);
    else
    {
        auto p = std::make_shared<og::AnytimePathShortening>(P->si);
        ob::PlannerPtr r1 = std::make_shared<og::RRT>(P->si), r2 = std::make_shared<og::RRT>(P->si);
        p->addPlanner(r1);
        p->addPlanner(r2);
        pl = p;
    }
    pl->setProblemDefinition(P->pdef);
    pl->setup();
    std::atomic<long> calls{0};
    int budget = c.budget;
    ob::PlannerTerminationCondition ptc([&calls, budget] { return ++calls > budget; });
    ob::PlannerStatus st = pl->solve(ptc);
    P->planner = pl;
    std::string fails;
    auto fail = [&](const std::string &k, const std::string &w) {
        std::string kk = k;
        if (kk.substr(0, 4) == "C01|")
            kk = "C19|planner|" + kk.substr(4);
        out.fail(kk, w);
    };
    vo::checkStatus(*P, st, 0, name, fail);
    for (auto &sol : P->pdef->getSolutions())
        vo::checkSolution(*P, sol, 0, name, fail);
    out.obs = st.asString() + " sols=" + std::to_string(P->pdef->getSolutionCount());
    pl.reset();
    P.reset();
}


// ------------------------------------------------------------------ C03 under the scheduler: always-multi-threaded planners
// (compiled with -DSCEN_C03 into c03_threads): the termination condition first fires at evaluation k+1 (counted over ALL threads of
// the planner), for every k up to the cap, then the search is resumed, cleared and interrupted again; C03's clauses are checked
// after every call, in every schedule with <= P preemptions.
static void scInterrupt(const std::string &planner, const std::string &map, int k, tse::Out &out, const std::string &prop = "C03", bool fullHistory = true)
{
    vw::Cfg c;
    c.planner = "RRT";  // Problem's own planner slot (unused)
    c.map = map;
    c.budget = k;
    std::unique_ptr<vw::Problem> P = std::make_unique<vw::Problem>(c);
    ob::PlannerPtr pl;
    unsigned flags = 0;
    if (planner == "CForest")
    {
        auto p = std::make_shared<og::CForest>(P->si);
        p->setNumThreads(2);
        pl = p;
    }
    else
    {
        const vpl::Ent *e = vpl::find(planner);
        pl = e->make(P->si);
        flags = e->flags;
    }
    pl->setProblemDefinition(P->pdef);
    pl->setup();
    P->planner = pl;
    std::string obs;
    auto solve = [&](int budget, const std::string &step) {
        std::atomic<long> calls{0}, firstTrue{-1};
        size_t before = P->pdef->getSolutionCount();
        bool hadTop = before > 0;
        ob::PlannerSolution topBefore(nullptr);
        if (hadTop)
            topBefore = P->pdef->getSolutions()[0];
        ob::PlannerTerminationCondition ptc([&calls, &firstTrue, budget] {
            long n = ++calls;
            bool t = n > budget;
            if (t)
            {
                long e = -1;
                firstTrue.compare_exchange_strong(e, n);
            }
            return t;
        });
        ob::PlannerStatus st = pl->solve(ptc);
        long extra = firstTrue.load() < 0 ? 0 : calls.load() - firstTrue.load();
        auto fail = [&](const std::string &kx, const std::string &w) {
            std::string kk = kx;
            if (kk.substr(0, 4) == "C01|" || kk.substr(0, 4) == "C03|")
                kk = prop + "|threaded|" + kk.substr(kk.substr(0, 13) == "C03|threaded|" ? 13 : 4);
            out.fail(kk, w + " [k=" + std::to_string(k) + ", step " + step + "]");
        };
        if (extra > 60 && prop == "C03")
            fail("C03|threaded|late-return|" + planner, "solve() evaluated the termination condition " + std::to_string(extra) + " more times after it first became true");
        vo::checkStatus(*P, st, before, planner, fail);
        for (auto &sol : P->pdef->getSolutions())
            vo::checkSolution(*P, sol, flags, planner, fail);
        if (prop != "C03")
            ;  // the resume clauses are C03's
        else if (hadTop && P->pdef->getSolutionCount() > 0)
        {
            ob::PlannerSolution top = P->pdef->getSolutions()[0];
            bool worse = (!topBefore.approximate_ && top.approximate_) ||
                         (topBefore.approximate_ && top.approximate_ && top.difference_ > topBefore.difference_ + 1e-9) ||
                         (!topBefore.approximate_ && !top.approximate_ && top.path_ && topBefore.path_ && top.path_->length() > topBefore.path_->length() + 1e-9);
            if (worse)
                fail("C03|threaded|resume-worsens-solution|" + planner, "a continued solve() made the best reported solution worse");
        }
        else if (hadTop)
            fail("C03|threaded|resume-loses-solution|" + planner, "a continued solve() removed the reported solution");
        obs += step + "=" + st.asString() + "/" + std::to_string(P->pdef->getSolutionCount()) + " ";
        if (getenv("VERIF_DEBUG"))
        {
            obs += "[calls=" + std::to_string(calls.load()) + " firstTrue=" + std::to_string(firstTrue.load());
            for (auto &sol : P->pdef->getSolutions())
            {
                obs += sol.approximate_ ? " approx:" : " exact:";
                if (auto *pg = dynamic_cast<og::PathGeometric *>(sol.path_.get()))
                    for (size_t i = 0; i < pg->getStateCount(); ++i)
                        obs += vo::sstr(P->space.get(), pg->getState(i));
            }
            obs += "] ";
        }
    };
    solve(k, "interrupt");
    solve(k + 25, "resume");
    if (fullHistory)
    {
        pl->clear();
        P->pdef->clearSolutionPaths();
        solve(k, "clear+interrupt");
    }
    out.obs = obs;
    pl.reset();
    P->planner.reset();
    P.reset();
}

// ------------------------------------------------------------------ C04 under the scheduler (compiled with -DSCEN_C04 into c04_threads):
// PRM / PRM* answer a short query, the query is replaced (clearQuery keeps the roadmap | clear), the main, costlier query is solved and
// continued; after every solve the stored cost of every reported solution is compared with the harness fold of its path.
static void scCosts(const std::string &planner, const std::string &map, int sw, tse::Out &out)
{
    vw::Cfg c;
    c.planner = "RRT";
    c.map = map;
    c.objectiveKind = "length";
    c.costThreshold = 1e6;  // every exact solution meets the objective: the optimized flag is decided by the stored cost
    std::unique_ptr<vw::Problem> P = std::make_unique<vw::Problem>(c);
    const vpl::Ent *e = vpl::find(planner);
    ob::PlannerPtr pl = e->make(P->si);
    ob::ProblemDefinitionPtr cur = vco::shortQuery(*P), other = P->pdef;
    pl->setProblemDefinition(cur);
    pl->setup();
    P->planner = pl;
    std::string obs;
    auto fail = [&](const std::string &k, const std::string &w) { out.fail(k.substr(0, 4) == "C04|" ? "C04|threaded|" + k.substr(4) : k, w); };
    bool haveBest = false;
    ob::Cost best;
    for (int budget : {25, sw, 45, 30})
    {
        if (budget < 0)
        {
            if (budget == -1)
                pl->clearQuery();
            else
                pl->clear();
            std::swap(cur, other);
            cur->clearSolutionPaths();
            pl->setProblemDefinition(cur);
            haveBest = false;
            continue;
        }
        std::atomic<long> calls{0};
        ob::PlannerTerminationCondition ptc([&calls, budget] { return ++calls > budget; });
        ob::PlannerStatus st = pl->solve(ptc);
        vco::Best now;
        vco::checkCosts(P->space.get(), cur.get(), e->flags, planner, "length", fail, nullptr, now);
        auto opt = cur->getOptimizationObjective();
        if (haveBest && now.have && opt->isCostBetterThan(best, now.cost) && std::fabs(best.value() - now.cost.value()) > 1e-9 * (1 + std::fabs(best.value())))
            fail("C04|best-cost-worsens|" + planner, "best stored cost of an exact solution went from " + vf::jnum(best.value()) + " to " + vf::jnum(now.cost.value()) + " across continued solves");
        if (now.have)
        {
            best = now.cost;
            haveBest = true;
        }
        char b[64];
        snprintf(b, sizeof b, "%s/%zu/%.6g ", st.asString().c_str(), cur->getSolutionCount(), now.have ? now.cost.value() : -1.0);
        obs += b;
    }
    out.obs = obs;
    pl.reset();
    P->planner.reset();
    cur.reset();
    other.reset();
    P.reset();
}

// ------------------------------------------------------------------ GoalLazySamples: the goal-sampling thread against its readers
static void scGoalLazy(bool withPlanner, tse::Out &out)
{
    vw::Cfg c;
    c.planner = "RRT";
    c.map = "wallgap4";
    c.budget = 40;
    std::unique_ptr<vw::Problem> P = std::make_unique<vw::Problem>(c);
    auto &sp = P->space;
    std::atomic<int> produced{0};
    // candidates: two valid goal states, one inside the wall (must be rejected), one duplicate (must be rejected by minDist)
    const double cand[5][2] = {{0.763, 3.757}, {1.5, 1.5}, {2.763, 3.257}, {0.763, 3.757}, {3.3, 2.6}};
    auto fn = [&produced, &cand, &sp](const ob::GoalLazySamples *, ob::State *s) {
        int k = produced++;
        if (k >= 5)
            return false;
        vw::setXY(sp.get(), s, cand[k][0], cand[k][1], 0.3);
        return true;
    };
    auto goal = std::make_shared<ob::GoalLazySamples>(P->si, fn, false, 1e-3);
    goal->setThreshold(0.3);
    std::string obs;
    auto isCandidate = [&](const ob::State *s) {
        double x, y;
        vw::xy(sp.get(), s, x, y);
        for (auto &k : cand)
            if (std::fabs(x - k[0]) < 1e-12 && std::fabs(y - k[1]) < 1e-12)
                return true;
        return false;
    };
    if (!withPlanner)
    {
        goal->startSampling();
        ob::State *tmp = sp->allocState();
        size_t seen = 0;
        for (int i = 0; i < 3; ++i)
        {
            size_t n = goal->getStateCount();
            if (n < seen)
                out.fail("C19|planner|goal-lazy|count-shrinks", "getStateCount() went from " + std::to_string(seen) + " to " + std::to_string(n) + " while sampling");
            seen = n;
            if (goal->hasStates())
            {
                goal->sampleGoal(tmp);
                if (!isCandidate(tmp) || !P->isValid(tmp))
                    out.fail("C19|planner|goal-lazy|bad-sample", "sampleGoal() returned " + vo::sstr(sp.get(), tmp) + " which is not a valid candidate produced by the sampling function");
            }
            (void)goal->couldSample();
            (void)goal->maxSampleCount();
        }
        goal->stopSampling();
        if (goal->isSampling())
            out.fail("C19|planner|goal-lazy|still-sampling", "isSampling() after stopSampling()");
        size_t n = goal->getStateCount();
        if (n < seen || n > 3)
            out.fail("C19|planner|goal-lazy|final-count", "after stopSampling() the goal holds " + std::to_string(n) + " states (seen " + std::to_string(seen) + " before; at most 3 distinct valid candidates exist)");
        for (size_t i = 0; i < n; ++i)
            if (!isCandidate(goal->getState(i)) || !P->isValid(goal->getState(i)))
                out.fail("C19|planner|goal-lazy|bad-state", "goal state " + std::to_string(i) + " is not a valid candidate");
        if (produced.load() >= 6 && n != 3)
            out.fail("C19|planner|goal-lazy|lost-state", "the sampling function ran to completion but the goal holds " + std::to_string(n) + " of the 3 distinct valid candidates");
        obs = "n=" + std::to_string(n) + " produced=" + std::to_string(std::min(produced.load(), 6));
        sp->freeState(tmp);
    }
    else
    {
        P->pdef->setGoal(goal);
        auto pl = std::make_shared<og::RRT>(P->si);
        pl->setProblemDefinition(P->pdef);
        pl->setup();
        goal->startSampling();
        std::atomic<long> calls{0};
        int budget = c.budget;
        ob::PlannerTerminationCondition ptc([&calls, budget] { return ++calls > budget; });
        ob::PlannerStatus st = pl->solve(ptc);
        goal->stopSampling();
        P->planner = pl;
        const ob::PlannerSolution *curSol = nullptr;
        auto fail = [&](const std::string &k, const std::string &w) {
            if (k.find("approx-difference") != std::string::npos && curSol)
            {
                // the goal set GROWS while the planner runs: the reported difference was measured against the goal states present at
                // that moment, i.e. against some prefix of the final list (states are appended in order)
                auto *pg = dynamic_cast<og::PathGeometric *>(curSol->path_.get());
                if (pg && pg->getStateCount() > 0)
                {
                    const ob::State *last = pg->getState(pg->getStateCount() - 1);
                    double best = 1e300;
                    for (std::size_t i = 0; i < goal->getStateCount(); ++i)
                    {
                        best = std::min(best, sp->distance(last, goal->getState(i)));
                        if (std::fabs(std::max(0.0, best - goal->getThreshold()) - curSol->difference_) <= 1e-9 || std::fabs(best - curSol->difference_) <= 1e-9)
                            return;
                    }
                }
            }
            out.fail(k.substr(0, 4) == "C01|" ? "C19|planner|goal-lazy-rrt|" + k.substr(4) : k, w);
        };
        vo::checkStatus(*P, st, 0, "RRT", fail);
        for (auto &sol : P->pdef->getSolutions())
        {
            curSol = &sol;
            vo::checkSolution(*P, sol, vpl::EXACT_EDGES, "RRT", fail);
        }
        curSol = nullptr;
        obs = st.asString() + " sols=" + std::to_string(P->pdef->getSolutionCount()) + " goals=" + std::to_string(goal->getStateCount());
        pl.reset();
        P->planner.reset();
    }
    out.obs = obs;
    P->pdef->clearGoal();
    goal.reset();
    P.reset();
}

struct Scenario
{
    std::string name;
    std::function<void(tse::Out &)> body;
    bool part1;       // documented thread-safe surface: races there are violations (after confirmation)
    int P_quick, P_thorough;
    long cap;
};
#ifdef SCEN_C03
static const char *PROP = "C03";
static std::vector<std::string> jobNames()
{
    std::vector<std::string> j;
    for (const char *pl : {"PRM", "PRMstar", "SPARS", "SPARStwo", "CForest"})
        for (const char *m : {"wallgap4", "enclosed4", "empty4"})
            j.push_back(std::string(pl) + "-" + m);  // wall between start and goal / goal enclosed (no exact solution) / direct line of sight
    return j;
}
static std::vector<Scenario> jobScenarios(const std::string &job, bool thorough)
{
    std::vector<Scenario> v;
    std::string pl = job.substr(0, job.find('-')), m = job.substr(job.find('-') + 1);
    std::vector<int> ks;
    bool heavy = pl == "CForest";  // two RRT* instances + main: an order of magnitude more schedules per execution
    if (thorough)
        for (int k = 0; k <= (heavy ? 8 : 40); ++k)
            ks.push_back(k);
    else
        ks = {0, 1, 2, 3, 5, 8, 13, 21};
    // CForest: quick explores the non-preemptive schedules (every choice at blocking points), thorough adds one preemption
    for (int k : ks)
        v.push_back({job + "-k" + std::to_string(k), [pl, m, k](tse::Out &o) { scInterrupt(pl, m, k, o); }, false, heavy ? 0 : 1, heavy ? 1 : 2, heavy ? 2000 : 1500});
    return v;
}
static bool findScenario(const std::string &name, Scenario &sc)
{
    size_t p = name.rfind("-k");
    if (p == std::string::npos)
        return false;
    for (auto &s : jobScenarios(name.substr(0, p), true))
        if (s.name == name)
        {
            sc = s;
            return true;
        }
    for (auto &s : jobScenarios(name.substr(0, p), false))
        if (s.name == name)
        {
            sc = s;
            return true;
        }
    return false;
}
#elif defined(SCEN_C18)
// the threaded half of C18 (terminate() against evaluations, the periodically evaluated form): same scenario bodies as in C19's set
static const char *PROP = "C18";
static void scTerminate(tse::Out &out);
static void scPeriodic(tse::Out &out);
static void scPeriodicTerminate(tse::Out &out);
static std::vector<Scenario> scenarios()
{
    return {
        {"terminate", scTerminate, true, 2, 3, 50000},
        {"periodic", scPeriodic, true, 1, 2, 50000},
        {"periodic-terminate", scPeriodicTerminate, true, 2, 3, 50000},
    };
}
static std::vector<std::string> jobNames()
{
    std::vector<std::string> j;
    for (auto &s : scenarios())
        j.push_back(s.name);
    return j;
}
static std::vector<Scenario> jobScenarios(const std::string &job, bool)
{
    std::vector<Scenario> v;
    for (auto &s : scenarios())
        if (job == s.name)
            v.push_back(s);
    return v;
}
static bool findScenario(const std::string &name, Scenario &sc)
{
    for (auto &s : scenarios())
        if (name == s.name)
        {
            sc = s;
            return true;
        }
    return false;
}
#elif defined(SCEN_C01)
// C01's path oracle for the always-multi-threaded planners: budgets x schedules
static const char *PROP = "C01";
static std::vector<std::string> jobNames()
{
    std::vector<std::string> j;
    for (const char *pl : {"PRM", "PRMstar", "SPARS", "SPARStwo"})
        for (const char *m : {"wallgap4", "enclosed4", "diag4"})
            j.push_back(std::string(pl) + "-" + m);
    return j;
}
static std::vector<Scenario> jobScenarios(const std::string &job, bool thorough)
{
    std::vector<Scenario> v;
    std::string pl = job.substr(0, job.find('-')), m = job.substr(job.find('-') + 1);
    std::vector<int> ks = thorough ? std::vector<int>{3, 8, 13, 21, 34, 55} : std::vector<int>{8, 34};
    for (int k : ks)
        v.push_back({job + "-k" + std::to_string(k), [pl, m, k](tse::Out &o) { scInterrupt(pl, m, k, o, "C01", false); }, false, 1, 2, 2500});
    return v;
}
static bool findScenario(const std::string &name, Scenario &sc)
{
    size_t p = name.rfind("-k");
    if (p == std::string::npos)
        return false;
    for (auto &s : jobScenarios(name.substr(0, p), true))
        if (s.name == name)
        {
            sc = s;
            return true;
        }
    for (auto &s : jobScenarios(name.substr(0, p), false))
        if (s.name == name)
        {
            sc = s;
            return true;
        }
    return false;
}
#elif defined(SCEN_C04)
static const char *PROP = "C04";
static std::vector<std::string> jobNames()
{
    std::vector<std::string> j;
    for (const char *pl : {"PRM", "PRMstar"})
        for (const char *m : {"empty4", "wallgap4"})
            j.push_back(std::string(pl) + "-" + m);
    return j;
}
static std::vector<Scenario> jobScenarios(const std::string &job, bool)
{
    std::vector<Scenario> v;
    std::string pl = job.substr(0, job.find('-')), m = job.substr(job.find('-') + 1);
    for (int sw : {-1, -2})
        v.push_back({job + (sw == -1 ? "-clearQuery" : "-clear"), [pl, m, sw](tse::Out &o) { scCosts(pl, m, sw, o); }, false, 1, 2, 3000});
    return v;
}
static bool findScenario(const std::string &name, Scenario &sc)
{
    size_t p = name.rfind("-clear");
    if (p == std::string::npos)
        return false;
    for (auto &s : jobScenarios(name.substr(0, p), false))
        if (s.name == name)
        {
            sc = s;
            return true;
        }
    return false;
}
#else
static const char *PROP = "C19";
static std::vector<Scenario> scenarios();
static std::vector<std::string> jobNames()
{
    std::vector<std::string> j;
    for (auto &s : scenarios())
        j.push_back(s.name);
    return j;
}
static std::vector<Scenario> jobScenarios(const std::string &job, bool)
{
    std::vector<Scenario> v;
    for (auto &s : scenarios())
        if (job == s.name)
            v.push_back(s);
    return v;
}
static bool findScenario(const std::string &name, Scenario &sc)
{
    for (auto &s : scenarios())
        if (name == s.name)
        {
            sc = s;
            return true;
        }
    return false;
}
static std::vector<Scenario> scenarios()
{
    return {
        {"motion", scMotion, true, 1, 2, 50000},
        {"gnat", scGnat, true, 2, 3, 50000},  // P = 2 already in the quick tier: with nodes of even degree a corrupted child permutation needs the OTHER thread stopped mid-visit too
        {"rng", scRng, true, 1, 2, 50000},
        {"solutions", scSolutions, true, 1, 2, 50000},
        {"logging", scLogging, true, 1, 2, 50000},
        {"logging-off", scLoggingOff, true, 1, 2, 50000},
        {"terminate", scTerminate, true, 2, 3, 50000},
        {"periodic", scPeriodic, true, 1, 2, 50000},
        {"periodic-terminate", scPeriodicTerminate, true, 1, 2, 50000},
        {"pRRT-empty", [](tse::Out &o) { scPlanner("pRRT-empty", o); }, false, 1, 2, 4000},
        {"pRRT-wall", [](tse::Out &o) { scPlanner("pRRT-wall", o); }, false, 1, 2, 4000},
        {"pSBL-empty", [](tse::Out &o) { scPlanner("pSBL-empty", o); }, false, 1, 2, 4000},
        {"pSBL-wall", [](tse::Out &o) { scPlanner("pSBL-wall", o); }, false, 1, 2, 4000},
        {"CForest-empty", [](tse::Out &o) { scPlanner("CForest-empty", o); }, false, 1, 1, 3000},
        {"CForest-wall", [](tse::Out &o) { scPlanner("CForest-wall", o); }, false, 1, 1, 3000},
        {"PRM-wall", [](tse::Out &o) { scPlanner("PRM-wall", o); }, false, 1, 1, 3000},
        {"APS-wall", [](tse::Out &o) { scPlanner("APS-wall", o); }, false, 1, 1, 3000},
        {"goal-lazy", [](tse::Out &o) { scGoalLazy(false, o); }, false, 2, 3, 20000},
        {"goal-lazy-rrt", [](tse::Out &o) { scGoalLazy(true, o); }, false, 1, 2, 4000},
    };
}
#endif

#ifndef C19_FREERUN
// ---- second confirmation: the free-running ThreadSanitizer pass (same scenario body, real libtsan, no scheduler) ----
struct TsanReport
{
    std::vector<std::string> a, b;  // top frames (function names without arguments) of the two accesses
};
static std::string stripArgs(std::string f)
{
    auto p = f.find('(');
    if (p != std::string::npos && f.compare(0, 9, "operator(") != 0)
        f = f.substr(0, p);
    while (!f.empty() && f.back() == ' ')
        f.pop_back();
    return f;
}
static std::vector<TsanReport> tsanPass(const std::string &scenario, int reps, std::string *raw = nullptr)
{
    std::vector<TsanReport> out;
    char self[4096];
    ssize_t n = readlink("/proc/self/exe", self, sizeof self - 1);
    self[n > 0 ? n : 0] = 0;
    std::string exe = std::string(self).substr(0, std::string(self).rfind('/')) + "/c19_tsan";
    if (access(exe.c_str(), X_OK) != 0)
        return out;
    std::string cmd = "TSAN_OPTIONS='halt_on_error=0 exitcode=0 report_signal_unsafe=0 history_size=4 second_deadlock_stack=0' timeout 120 " + exe + " " + scenario + " " + std::to_string(reps) + " 2>&1 >/dev/null";
    FILE *f = popen(cmd.c_str(), "r");
    if (!f)
        return out;
    char line[8192];
    TsanReport cur;
    int section = 0;  // 1 = first access stack, 2 = second access stack
    bool in = false;
    while (fgets(line, sizeof line, f))
    {
        std::string l = line;
        if (raw && raw->size() < 20000)
            *raw += l;
        if (l.find("WARNING: ThreadSanitizer: data race") != std::string::npos)
        {
            if (in)
                out.push_back(cur);
            cur = TsanReport();
            in = true;
            section = 0;
            continue;
        }
        if (!in)
            continue;
        if (l.find(" of size ") != std::string::npos && (l.find("by thread") != std::string::npos || l.find("by main thread") != std::string::npos))
        {
            section = l.find("Previous") != std::string::npos ? 2 : 1;
            continue;
        }
        if (l.find("Location is") != std::string::npos || l.find("Thread T") == 2 || l.find("SUMMARY:") != std::string::npos)
        {
            section = 0;
            continue;
        }
        auto h = l.find('#');
        if (section && h != std::string::npos && h < 8)
        {
            // "    #0 function(args) file:line (module+off)"
            std::string rest = l.substr(l.find(' ', h) + 1);
            std::string fn = stripArgs(rest);
            auto &v = section == 1 ? cur.a : cur.b;
            if (v.size() < 6)
                v.push_back(fn);
        }
    }
    if (in)
        out.push_back(cur);
    pclose(f);
    return out;
}
static bool tsanConfirms(const std::vector<TsanReport> &reps, const std::string &f1, const std::string &f2)
{
    auto has = [](const std::vector<std::string> &v, const std::string &f) {
        for (auto &x : v)
            if (x == f || x.find(f) != std::string::npos)
                return true;
        return false;
    };
    for (auto &r : reps)
        if ((has(r.a, f1) && has(r.b, f2)) || (has(r.a, f2) && has(r.b, f1)))
            return true;
    return false;
}
#endif

static std::string schedJson(const std::vector<int> &s)
{
    std::string o = "[";
    for (size_t i = 0; i < s.size(); ++i)
        o += (i ? "," : "") + std::to_string(s[i]);
    return o + "]";
}

#ifdef C19_FREERUN
// usage: c19_tsan <scenario> <repetitions> ; ThreadSanitizer reports go to stderr
int main(int argc, char **argv)
{
    ompl::msg::setLogLevel(ompl::msg::LOG_NONE);
    std::string name = argc > 1 ? argv[1] : "";
    int reps = argc > 2 ? atoi(argv[2]) : 20;
    Scenario sc;
    if (findScenario(name, sc))
        for (int i = 0; i < reps; ++i)
        {
            tse::Out o;
            sc.body(o);
        }
    return 0;
}
#else
int main(int argc, char **argv)
{
    // scheduling sites are recorded as code addresses: run with address-space randomisation off, so that a replay in a fresh process
    // sees the same addresses as the exploration that recorded them
    {
        int cur = personality(0xffffffff);
        if (cur != -1 && !(cur & ADDR_NO_RANDOMIZE) && !getenv("VERIF_NO_REEXEC"))
        {
            setenv("VERIF_NO_REEXEC", "1", 1);
            if (personality(cur | ADDR_NO_RANDOMIZE) != -1)
                execv("/proc/self/exe", argv);
        }
    }
    ompl::msg::setLogLevel(ompl::msg::LOG_NONE);
    vf::Harness H;
    H.property = PROP;
    H.jobs = [](const vf::Args &) { return jobNames(); };
    H.run = [](const std::string &jobName, const vf::Args &a, vf::Report &rep) {
      for (auto &sc : jobScenarios(jobName, a.thorough()))
      {
        if (a.expired())
        {
            rep.exhaustive = false;
            rep.caps.push_back("deadline before " + sc.name);
            break;
        }
        const std::string job = sc.name;
        tse::Explorer E;
        E.P = a.thorough() ? sc.P_thorough : sc.P_quick;
        E.maxSchedules = a.thorough() ? sc.cap * 4 : sc.cap;
        E.body = [&](tse::Out &o) {
            installThreadOracle(0);  // main thread of the execution
            sc.body(o);
        };
        E.threadHook = [](int id) { installThreadOracle(id); };
        E.expired = [&] { return a.expired(); };
        E.promoteRacy = sc.part1;  // on the documented surface, racy call sites become scheduling points (consequences are exhibited)
        E.explore();
        rep.states += E.schedules;
        rep.transitions += E.points;
        rep.evaluations += E.schedules;
        rep.validated += 1;
        for (auto &o : E.outcomes)
            rep.outcomes.insert(vf::hstr(job + o.first));
        // non-trivial = schedules with at least one preemption (last round)
        for (long i = 0; i < E.preemptedSchedules; ++i)
            rep.nontrivial.insert(vf::hstr(job) + i);
        auto mx = [&](const char *k, double v) { rep.metrics[k] = std::max(rep.metrics.count(k) ? rep.metrics[k] : 0.0, v); };
        mx("rounds_to_fixpoint", E.rounds);
        mx("max_threads", E.maxThreads);
        mx("max_virtual_ms", E.maxVirtualNs / 1e6);
        mx("max_instrumented_accesses", E.maxAccesses);
        mx("scheduling_sites_atomic", E.sets.atomicPCs.size());
        mx("scheduling_sites_racy", E.sets.schedPCs.size());
        rep.bounds["preemption_bound_" + job] = std::to_string(E.P);
        if (E.capHit)
        {
            rep.exhaustive = false;
            rep.caps.push_back("schedule cap " + std::to_string(E.maxSchedules) + " hit in " + job);
        }
        if (E.cut)
        {
            rep.exhaustive = false;
            rep.caps.push_back("deadline in " + job);
        }
        for (auto &s : E.sampleSchedules)
            rep.sample("{\"scenario\":" + vf::jesc(job) + ",\"schedule\":" + schedJson(s) + "}");
        std::string outc;
        for (auto &o : E.outcomes)
            outc += o.first + " x" + std::to_string(o.second) + "; ";
        rep.bounds["outcomes_" + job] = vf::jesc(outc);
        auto setsJson = [&] {
            std::string s = "\"sched\":[";
            bool f = true;
            for (auto p : E.sets.schedPCs)
            {
                s += (f ? "" : ",") + std::to_string(p);
                f = false;
            }
            s += "],\"atomic\":[";
            f = true;
            for (auto p : E.sets.atomicPCs)
            {
                s += (f ? "" : ",") + std::to_string(p);
                f = false;
            }
            return s + "]";
        };
        // oracle failures, deadlocks, livelocks, crashes: violations with a replayable schedule
        for (auto &f : E.failures)
        {
            std::string key = f.first;
            if (key.substr(0, 6) == "FATAL|")
                key = std::string(PROP) + "|" + std::string(sc.part1 ? "surface" : "planner") + "|" + job + "|" + key.substr(6);
            rep.fail(key, f.second.first + " [" + std::to_string(E.failureCount[f.first]) + " of " + std::to_string(E.schedules) + " schedules]",
                     "{\"scenario\":" + vf::jesc(job) + ",\"schedule\":" + schedJson(f.second.second) + ",\"P\":" + std::to_string(E.P) + "," + setsJson() + "}");
        }
        // races: on the documented surface they are violation CANDIDATES (confirmed by an exhibited consequence above or by the
        // free-running ThreadSanitizer pass, see bin/vcheck); inside the planners they are recorded only
        std::string rl;
        std::vector<TsanReport> tsan;
        bool ranTsan = false;
        bool consequence = false;  // an oracle failure was exhibited in this scenario (first confirmation route)
        for (auto &f : E.failures)
            if (f.first.substr(0, 6) != "FATAL|")
                consequence = true;
        for (auto &r : E.racesSeen)
        {
            std::string status = "recorded";
            if (sc.part1)
            {
                if (!ranTsan)
                {
                    tsan = tsanPass(job, 40);
                    ranTsan = true;
                    rep.metrics["tsan_reports_" + job] = tsan.size();
                }
                bool byTsan = tsanConfirms(tsan, r.second.f1, r.second.f2);
                // the free-running pass samples real interleavings: before a candidate is dismissed it gets two longer passes
                for (int reps : {160, 480})
                {
                    if (byTsan || consequence)
                        break;
                    auto more = tsanPass(job, reps);
                    tsan.insert(tsan.end(), more.begin(), more.end());
                    rep.metrics["tsan_reports_" + job] = tsan.size();
                    byTsan = tsanConfirms(tsan, r.second.f1, r.second.f2);
                }
                if (byTsan || consequence)
                {
                    status = std::string("CONFIRMED by ") + (byTsan ? "free-running ThreadSanitizer" : "") + (byTsan && consequence ? " and " : "") + (consequence ? "an exhibited consequence" : "");
                    rep.fail("C19|race|" + job + "|" + r.first, "data race on the documented thread-safe surface (happens-before monitor, " + std::to_string(E.racesCount[r.first]) + " schedule(s); " + status + "): " + r.second.str(),
                             "{\"scenario\":" + vf::jesc(job) + ",\"race\":" + vf::jesc(r.first) + ",\"P\":" + std::to_string(E.P) + "," + setsJson() + "}");
                }
                else
                    status = "UNCONFIRMED candidate (not reported by the free-running ThreadSanitizer pass, no consequence exhibited): not a violation";
            }
            rl += r.second.str() + " (" + std::to_string(E.racesCount[r.first]) + " schedules; " + status + "); ";
        }
        rep.bounds["races_" + job] = vf::jesc(rl.empty() ? "none" : rl);
        rep.rule = "per scenario: ALL schedules of the real threads with <= P preemptions (scheduling points: thread create/join, mutex lock/unlock, once, atomics at call sites that touch "
                   "shared objects, virtual-time sleeps, and plain accesses at call sites the monitor found racy), re-explored until the site sets reach a fixpoint; every schedule is a fresh "
                   "process; a vector-clock happens-before monitor over every instrumented load/store runs in every schedule; states = schedules of the final round, transitions = scheduling "
                   "points, non-trivial = schedules with at least one preemption";
        rep.assumptions = {"sequential consistency (weak-memory reorderings are not explored)", "accesses inside uninstrumented libraries (libstdc++.so, libc) are invisible to the monitor",
                           "worker randomness is fixed by a per-thread default answer stream (hook H1): the schedule is the only nondeterminism",
                           "a race on the documented thread-safe surface counts only when confirmed: by an exhibited consequence or by the free-running ThreadSanitizer pass",
                           "races inside multi-threaded planners are recorded, only oracle failures, deadlocks, livelocks and crashes are violations there"};
      }
    };
    H.replay = [](const vf::JV &v) {
        Scenario sc;
        if (!findScenario(v["scenario"].s, sc))
            return false;
        tse::Explorer E;
        for (auto &x : v["sched"].a)
            E.sets.schedPCs.insert((unsigned long)x.n);
        for (auto &x : v["atomic"].a)
            E.sets.atomicPCs.insert((unsigned long)x.n);
        E.body = [&](tse::Out &o) {
            installThreadOracle(0);
            sc.body(o);
        };
        E.threadHook = [](int id) { installThreadOracle(id); };
        if (v.has("race"))
        {
            // a race is a property of the scenario, not of one schedule: re-explore and look for the same pair
            E.P = (int)v["P"].i();
            E.promoteRacy = false;
            E.maxSchedules = 3000;
            E.explore();
            bool again = E.racesSeen.count(v["race"].s) > 0;
            printf("race %s %s\n", v["race"].s.c_str(), again ? "reported again" : "not reported");
            return again;
        }
        std::vector<int> sched;
        for (auto &x : v["schedule"].a)
            sched.push_back((int)x.i());
        tse::Exec x = E.runOne(sched);
        if (x.diverged)
        {
            // code addresses moved (rebuilt binary): the recorded site sets no longer apply; fall back to re-exploration
            E.sets = tse::Sets();
            E.P = (int)v["P"].i();
            E.maxSchedules = 20000;
            E.promoteRacy = sc.part1;  // as in the run that found it: racy sites of the documented surface are scheduling points
            E.explore();
            for (auto &f : E.failures)
                printf("%s: %s\n", f.first.c_str(), f.second.first.c_str());
            return !E.failures.empty();
        }
        printf("observation: %s\n", x.out.obs.c_str());
        for (auto &f : x.out.fails)
            printf("%s: %s\n", f.first.c_str(), f.second.c_str());
        if (!x.fatal.empty())
            printf("FATAL %s\n", x.fatal.c_str());
        return !x.out.fails.empty() || !x.fatal.empty();
    };
    return vf::main(argc, argv, H);
}
#endif
