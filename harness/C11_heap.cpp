// C11 — updatable heap: E2 history BFS on the real ompl::BinaryHeap, canonical state = private key array.
#include <ompl/datastructures/BinaryHeap.h>
#include "hbfs.hpp"
#include "asanhook.hpp"
#include <algorithm>

struct E
{
    int key = 0, id = 0;
};
struct Lt
{
    bool rev = false;
    bool operator()(const E &a, const E &b) const
    {
        return rev ? a.key > b.key : a.key < b.key;
    }
};
using Heap = ompl::BinaryHeap<E, Lt>;

struct Sys
{
    bool rev = false;
    int K = 4, cap = 7;
    bool thorough = false;
    template <class O>
    std::vector<std::string> variants(O &, const std::string &)
    {
        return {};
    }
    static constexpr bool kModelInCanon = true;  // the key array is the model multiset (ids are labels)
    template <class O, class F>
    void checkTransition(O &, const std::vector<std::string> &, F)
    {
    }
    struct Obj
    {
        std::unique_ptr<Heap> h;
        std::map<int, int> model;  // id -> key
        int nextId = 0;
        std::string last;  // kind of last op
        long inserted = 0, removedEv = 0;
    };
    static void afterInsert(Heap::Element *, void *p)
    {
        ++static_cast<Obj *>(p)->inserted;
    }
    std::unique_ptr<Obj> make()
    {
        auto o = std::make_unique<Obj>();
        o->h = std::make_unique<Heap>(Lt{rev});
        return o;
    }
    std::vector<std::string> enabled(Obj &o)
    {
        std::vector<std::string> ops;
        int n = o.h->size();
        if (n < cap)
            for (int k = 0; k < K; ++k)
                ops.push_back("I " + std::to_string(k));
        if (n > 0)
            ops.push_back("P");
        for (int p = 0; p < n; ++p)
            ops.push_back("R " + std::to_string(p));
        for (int p = 0; p < n; ++p)
            for (int k = 0; k < K; ++k)
                if (o.h->vector_[p]->data.key != k)
                    ops.push_back("U " + std::to_string(p) + " " + std::to_string(k));
        if (n + 2 <= cap)
        {
            ops.push_back("V 1 0");
            ops.push_back("V 3 3");
            if (thorough)
            {
                ops.push_back("V 0 2");
                ops.push_back("V 2 1");
            }
        }
        ops.push_back("B -1 0");  // plain rebuild
        for (int p = 0; p < n; ++p)
            for (int k = 0; k < K; ++k)
                if (o.h->vector_[p]->data.key != k && (thorough || k == 0 || k == K - 1))
                    ops.push_back("B " + std::to_string(p) + " " + std::to_string(k));
        if (n > 0)
            ops.push_back("C");
        ops.push_back("F 2 1");
        if (cap >= 4)
            ops.push_back("F 3 1 2 0");
        if (n == 0 && o.nextId == 0)
        {
            // from the initial state: buildFrom with every list up to length min(cap,4 / 5)
            int L = std::min(cap, thorough ? 5 : 4);
            std::vector<int> v;
            std::function<void()> rec = [&]() {
                if (!v.empty())
                {
                    std::string s = "F";
                    for (int k : v)
                        s += " " + std::to_string(k);
                    if (s != "F 2 1" && s != "F 3 1 2 0")
                        ops.push_back(s);
                }
                if ((int)v.size() == L)
                    return;
                for (int k = 0; k < K; ++k)
                {
                    v.push_back(k);
                    rec();
                    v.pop_back();
                }
            };
            rec();
        }
        return ops;
    }
    static std::vector<int> nums(const std::string &op)
    {
        std::vector<int> v;
        std::istringstream is(op.substr(1));
        int x;
        while (is >> x)
            v.push_back(x);
        return v;
    }
    void apply(Obj &o, const std::string &op)
    {
        auto a = nums(op);
        Heap &h = *o.h;
        o.last = op.substr(0, 1);
        switch (op[0])
        {
            case 'I':
            {
                E e{a[0], o.nextId++};
                auto *el = h.insert(e);
                o.model[e.id] = e.key;
                (void)el;
                break;
            }
            case 'V':
            {
                std::vector<E> l;
                for (int k : a)
                {
                    l.push_back(E{k, o.nextId});
                    o.model[o.nextId++] = k;
                }
                h.insert(l);
                break;
            }
            case 'P':
            {
                auto *t = h.top();
                o.model.erase(t->data.id);
                h.pop();
                break;
            }
            case 'R':
            {
                auto *el = h.vector_[a[0]];
                o.model.erase(el->data.id);
                h.remove(el);
                break;
            }
            case 'U':
            {
                auto *el = h.vector_[a[0]];
                el->data.key = a[1];
                o.model[el->data.id] = a[1];
                h.update(el);
                break;
            }
            case 'B':
            {
                if (a[0] >= 0)
                {
                    auto *el = h.vector_[a[0]];
                    el->data.key = a[1];
                    o.model[el->data.id] = a[1];
                }
                h.rebuild();
                break;
            }
            case 'C':
                h.clear();
                o.model.clear();
                break;
            case 'F':
            {
                std::vector<E> l;
                o.model.clear();
                for (int k : a)
                {
                    l.push_back(E{k, o.nextId});
                    o.model[o.nextId++] = k;
                }
                h.buildFrom(l);
                break;
            }
        }
    }
    std::string canon(Obj &o)
    {
        std::string s;
        for (auto *e : o.h->vector_)
            s += char('0' + e->data.key);
        return s;
    }
    std::string outcome(Obj &o)
    {
        return canon(o);
    }
    bool better(int a, int b) const
    {
        return rev ? a > b : a < b;
    }
    static const char *opname(const std::string &l)
    {
        switch (l.empty() ? '0' : l[0])
        {
            case 'I': return "insert";
            case 'V': return "insert-vector";
            case 'P': return "pop";
            case 'R': return "remove";
            case 'U': return "update";
            case 'B': return "rebuild";
            case 'C': return "clear";
            case 'F': return "buildFrom";
        }
        return "init";
    }
    void check(Obj &o, const std::vector<std::string> &hist, std::function<void(const std::string &, const std::string &)> fail)
    {
        Heap &h = *o.h;
        std::string after = std::string("|after=") + opname(o.last);
        if (h.size() != o.model.size())
            fail("C11|size" + after, "size() " + std::to_string(h.size()) + " != live elements " + std::to_string(o.model.size()));
        if (h.empty() != o.model.empty())
            fail("C11|empty" + after, "empty() disagrees with the model");
        // handles: every stored element indexes itself and carries the key the model holds for its id
        std::map<int, int> seen;
        for (unsigned i = 0; i < h.vector_.size(); ++i)
        {
            auto *e = h.vector_[i];
            if (e->position != i)
                fail("C11|handle-position" + after, "element at array index " + std::to_string(i) + " has position " + std::to_string(e->position));
            seen[e->data.id] = e->data.key;
        }
        if (seen != o.model)
            fail("C11|contents" + after, "heap contents differ from the model multiset");
        std::vector<E> content;
        h.getContent(content);
        if (content.size() != o.model.size())
            fail("C11|getContent" + after, "getContent size differs");
        if (o.model.empty())
        {
            if (h.top() != nullptr)
                fail("C11|top-empty" + after, "top() of an empty heap is not nullptr");
        }
        else
        {
            int best = o.model.begin()->second;
            for (auto &m : o.model)
                if (better(m.second, best))
                    best = m.second;
            if (!h.top() || h.top()->data.key != best)
                fail("C11|top-not-minimum" + after, "top() key " + std::to_string(h.top() ? h.top()->data.key : -1) + " but minimum is " + std::to_string(best));
        }
        // drain a replayed copy: pops must come out non-decreasing and be exactly the model multiset
        {
            auto c = make();
            for (auto &op : hist)
                apply(*c, op);
            std::vector<int> popped, ids;
            while (!c->h->empty() && popped.size() <= o.model.size() + 2)
            {
                popped.push_back(c->h->top()->data.key);
                ids.push_back(c->h->top()->data.id);
                c->h->pop();
            }
            bool sorted = true;
            for (size_t i = 1; i < popped.size(); ++i)
                if (better(popped[i], popped[i - 1]))
                    sorted = false;
            if (!sorted)
            {
                std::string s;
                for (int k : popped)
                    s += std::to_string(k) + " ";
                fail("C11|drain-order" + after, "popping yields " + s + "which is not ordered");
            }
            std::vector<int> want, got = popped;
            for (auto &m : o.model)
                want.push_back(m.second);
            std::sort(want.begin(), want.end());
            std::sort(got.begin(), got.end());
            if (want != got)
                fail("C11|drain-multiset" + after, "popping does not return exactly the live elements");
            std::sort(ids.begin(), ids.end());
            if (std::adjacent_find(ids.begin(), ids.end()) != ids.end())
                fail("C11|drain-duplicate" + after, "an element was popped twice");
        }
        // sort() must sort any list and leave the heap untouched
        for (auto l : {std::vector<int>{3, 1, 2}, std::vector<int>{2, 2, 0, 1, 3, 0, 1}, std::vector<int>{}})
        {
            std::vector<E> v;
            for (int k : l)
                v.push_back(E{k, -1});
            std::string before = canon(o);
            h.sort(v);
            bool ok = v.size() == l.size();
            for (size_t i = 1; i < v.size(); ++i)
                if (better(v[i].key, v[i - 1].key))
                    ok = false;
            std::vector<int> a, b = l;
            for (auto &e : v)
                a.push_back(e.key);
            std::sort(a.begin(), a.end());
            std::sort(b.begin(), b.end());
            if (!ok || a != b)
                fail("C11|sort-result" + after, "sort() result is not the sorted input");
            if (canon(o) != before)
                fail("C11|sort-disturbs-heap" + after, "sort() changed the heap");
        }
    }
    bool nontrivial(Obj &o, const std::vector<std::string> &hist)
    {
        if (o.h->size() < 3)
            return false;
        char c = hist.empty() ? 'I' : hist.back()[0];
        return c == 'R' || c == 'U' || c == 'B';
    }
};

static void configure(Sys &s, const std::string &job, bool thorough)
{
    // job = "<lt|gt>-k<K>-c<cap>"
    s.rev = job.substr(0, 2) == "gt";
    s.thorough = thorough;
    sscanf(job.c_str() + 3, "k%d-c%d", &s.K, &s.cap);
}

int main(int argc, char **argv)
{
    vf::Harness H;
    H.property = "C11";
    H.jobs = [](const vf::Args &a) {
        if (a.thorough())
            return std::vector<std::string>{"lt-k4-c9", "gt-k4-c8", "lt-k5-c8", "gt-k3-c10", "lt-k3-c10"};
        return std::vector<std::string>{"lt-k4-c8", "gt-k4-c8", "lt-k5-c7", "gt-k3-c9"};
    };
    H.run = [](const std::string &job, const vf::Args &a, vf::Report &r) {
        Sys s;
        configure(s, job, true);  // the richer op set in both tiers (seconds)
        vf::HBFS<Sys> bfs(s, r, a);
        bfs.replayExtra = "\"job\":" + vf::jesc(job) + ",\"thorough\":true";
        bfs.run();
        r.rule = "BFS over op histories (insert, insert(vector), pop, remove(handle), update(handle), silent key change+rebuild, "
                 "buildFrom, clear) on the real BinaryHeap; state = private key array; every state: size/top/handle positions/"
                 "contents vs model, full drain of a replayed copy, sort(); non-trivial = distinct states with >=3 elements entered by "
                 "a remove, update or rebuild transition";
        r.bounds["keys"] = std::to_string(s.K);
        r.bounds["size_cap"] = std::to_string(s.cap);
        r.bounds["closure"] = bfs.closed ? "true" : "false";
        r.bounds["max_history_length"] = std::to_string(bfs.depthReached + 1);
        r.assumptions = {"comparison functor is a strict weak order", "handles are used only while their element is live",
                         "pop()/top()->data only on a non-empty heap"};
    };
    H.replay = [](const vf::JV &v) {
        Sys s;
        configure(s, v["job"].s, v["thorough"].b);
        auto o = s.make();
        std::vector<std::string> hist;
        bool failed = false;
        for (auto &op : v["ops"].a)
        {
            s.apply(*o, op.s);
            hist.push_back(op.s);
            s.check(*o, hist, [&](const std::string &k, const std::string &w) {
                printf("after %zu ops: %s: %s\n", hist.size(), k.c_str(), w.c_str());
                failed = true;
            });
        }
        return failed;
    };
    return vf::main(argc, argv, H);
}
