// C16 — constrained spaces. E3 over on-manifold lattices (projected space, stateless) and E2 over operation sequences of
// the stateful atlas / tangent-bundle spaces (charts accumulate), samplers under the choice oracle.
#include "choice.hpp"
#include "vf.hpp"
#include "asanhook.hpp"
#include "notime.hpp"
#include <ompl/base/Constraint.h>
#include <ompl/base/ConstrainedSpaceInformation.h>
#include <ompl/base/spaces/RealVectorStateSpace.h>
#include <ompl/base/spaces/constraint/ProjectedStateSpace.h>
#include <ompl/base/spaces/constraint/AtlasStateSpace.h>
#include <ompl/base/spaces/constraint/TangentBundleStateSpace.h>
#include <ompl/base/ProblemDefinition.h>
#include <ompl/geometric/PathGeometric.h>
#include <ompl/geometric/planners/rrt/RRT.h>
#include <ompl/geometric/planners/kpiece/KPIECE1.h>
#include <ompl/util/Console.h>

namespace ob = ompl::base;
namespace og = ompl::geometric;
using Vx = Eigen::VectorXd;

struct SphereC : ob::Constraint
{
    SphereC(int n) : ob::Constraint(n, 1)
    {
    }
    void function(const Eigen::Ref<const Vx> &x, Eigen::Ref<Vx> out) const override
    {
        out[0] = x.norm() - 1;
    }
    void jacobian(const Eigen::Ref<const Vx> &x, Eigen::Ref<Eigen::MatrixXd> out) const override
    {
        // at the centre the gradient direction is undefined: any unit vector keeps the Jacobian finite (a user Jacobian
        // that returns NaN makes Eigen's SVD read garbage, which is not the library's defect)
        if (x.norm() < 1e-12)
        {
            out.setZero();
            out(0, 0) = 1;
        }
        else
            out = x.transpose().normalized();
    }
};
struct TorusC : ob::Constraint
{
    TorusC() : ob::Constraint(3, 1)
    {
    }
    void function(const Eigen::Ref<const Vx> &x, Eigen::Ref<Vx> out) const override
    {
        double r = std::hypot(x[0], x[1]);
        out[0] = std::hypot(r - 2.0, x[2]) - 0.7;
    }
    void jacobian(const Eigen::Ref<const Vx> &x, Eigen::Ref<Eigen::MatrixXd> out) const override
    {
        double r = std::hypot(x[0], x[1]), q = std::hypot(r - 2.0, x[2]);
        double cx = r < 1e-12 ? 1.0 : x[0] / r, cy = r < 1e-12 ? 0.0 : x[1] / r;  // finite on the axis
        if (q < 1e-12)
        {
            out(0, 0) = cx;
            out(0, 1) = cy;
            out(0, 2) = 0;
            return;
        }
        out(0, 0) = (r - 2.0) / q * cx;
        out(0, 1) = (r - 2.0) / q * cy;
        out(0, 2) = x[2] / q;
    }
};
struct PlaneC : ob::Constraint
{
    PlaneC() : ob::Constraint(3, 1)
    {
    }
    void function(const Eigen::Ref<const Vx> &x, Eigen::Ref<Vx> out) const override
    {
        out[0] = 0.3 * x[0] - 0.5 * x[1] + x[2] - 0.2;
    }
    void jacobian(const Eigen::Ref<const Vx> &, Eigen::Ref<Eigen::MatrixXd> out) const override
    {
        out(0, 0) = 0.3;
        out(0, 1) = -0.5;
        out(0, 2) = 1;
    }
};
struct CircleC : ob::Constraint  // sphere of radius 1 intersected with the plane z = 0.3: co-dimension 2
{
    CircleC() : ob::Constraint(3, 2)
    {
    }
    void function(const Eigen::Ref<const Vx> &x, Eigen::Ref<Vx> out) const override
    {
        out[0] = x.norm() - 1;
        out[1] = x[2] - 0.3;
    }
    void jacobian(const Eigen::Ref<const Vx> &x, Eigen::Ref<Eigen::MatrixXd> out) const override
    {
        if (x.norm() < 1e-12)
        {
            out.row(0).setZero();
            out(0, 0) = 1;
        }
        else
            out.row(0) = x.transpose().normalized();
        out(1, 0) = 0;
        out(1, 1) = 0;
        out(1, 2) = 1;
    }
};

struct Params
{
    double delta, lambda, tol;
    int maxIter = 50;  // Newton budget of Constraint::project and of the atlas charts (Constraint::setMaxIterations)
};
// settings 3 and 4 (projected space only): lambda close to 1, where the "wandered too far" limit of discreteGeodesic trips on curved
// manifolds, often on the very step that would arrive (the exit bookkeeping of the traversal loop is what gets exercised)
static const Params PARAMS[] = {{0.05, 2.0, 1e-4}, {0.2, 5.0, 1e-4}, {0.02, 1.5, 1e-8}, {0.05, 1.1, 1e-4}, {0.1, 1.02, 1e-6},
                                // setting 5 (atlas / tangent bundle): a Newton budget of 2 iterations with a coarse step, so that projections regularly run
                                // out of iterations with a residual between the tolerance and its square root: whatever is then reported as a success
                                // must still satisfy the constraint
                                {0.2, 2.0, 1e-4, 2}};

struct Setup
{
    std::string manifold, kind;  // kind: projected | atlas | tangent
    int pi;
    std::shared_ptr<ob::Constraint> con;
    std::shared_ptr<ob::ConstrainedStateSpace> css;
    std::shared_ptr<ob::ConstrainedSpaceInformation> csi;
    std::vector<ob::State *> lat;
    int n;
    Setup(const std::string &m, const std::string &k, int p, int latticeSize) : manifold(m), kind(k), pi(p)
    {
        if (m == "sphere3")
            con = std::make_shared<SphereC>(3);
        else if (m == "sphere4")
            con = std::make_shared<SphereC>(4);
        else if (m == "torus")
            con = std::make_shared<TorusC>();
        else if (m == "plane")
            con = std::make_shared<PlaneC>();
        else
            con = std::make_shared<CircleC>();
        n = con->getAmbientDimension();
        con->setTolerance(PARAMS[p].tol);
        con->setMaxIterations(PARAMS[p].maxIter);
        auto rv = std::make_shared<ob::RealVectorStateSpace>(n);
        rv->setBounds(-4, 4);  // roomy: bounds cutting the manifold are outside the quantifier
        if (k == "projected")
            css = std::make_shared<ob::ProjectedStateSpace>(rv, con);
        else if (k == "atlas")
            css = std::make_shared<ob::AtlasStateSpace>(rv, con);
        else
            css = std::make_shared<ob::TangentBundleStateSpace>(rv, con);
        csi = std::make_shared<ob::ConstrainedSpaceInformation>(css);
        css->setDelta(PARAMS[p].delta);
        css->setLambda(PARAMS[p].lambda);
        csi->setStateValidityChecker([](const ob::State *) { return true; });
        csi->setup();
        // on-manifold lattice: project off-centre ambient grid points; skip points where the projection fails (singular Jacobian)
        std::vector<double> g = {-1.3, 0.45, 1.15};
        std::vector<Vx> amb;
        std::function<void(Vx &, int)> rec = [&](Vx &v, int d) {
            if (d == n)
            {
                amb.push_back(v);
                return;
            }
            for (double x : g)
            {
                v[d] = x * (m == "torus" ? 1.6 : 1.0) + 0.07 * d;
                rec(v, d + 1);
            }
        };
        Vx v(n);
        rec(v, 0);
        for (size_t i = 0; i < amb.size() && (int)lat.size() < latticeSize; i += std::max<size_t>(1, amb.size() / (latticeSize + 3)))
        {
            ob::State *s = css->allocState();
            s->as<ob::ConstrainedStateSpace::StateType>()->copy(amb[i]);
            if (con->project(s) && con->isSatisfied(s))
                lat.push_back(s);
            else
                css->freeState(s);
        }
    }
    ~Setup()
    {
        for (auto *s : lat)
            css->freeState(s);
    }
    std::string vstr(const ob::State *s) const
    {
        const Vx &v = *s->as<ob::ConstrainedStateSpace::StateType>();
        std::string o = "(";
        char b[32];
        for (int i = 0; i < v.size(); ++i)
        {
            snprintf(b, sizeof b, "%s%.5g", i ? "," : "", v[i]);
            o += b;
        }
        return o + ")";
    }
    double residual(const ob::State *s) const
    {
        Vx out(con->getCoDimension());
        con->function(*s->as<ob::ConstrainedStateSpace::StateType>(), out);
        return out.norm();
    }
};
using Fail = std::function<void(const std::string &, const std::string &)>;

static void checkOnManifold(Setup &S, const ob::State *s, const std::string &what, const Fail &fail)
{
    double r = S.residual(s);
    // the library's own test is norm(f(x)) <= tolerance; a hair of slack for the re-evaluation
    if (!(r <= PARAMS[S.pi].tol * (1 + 1e-9)) || !std::isfinite(r))
        fail("C16|" + S.kind + "|off-manifold|" + what, what + " state " + S.vstr(s) + " violates the constraint: |f| = " + vf::jnum(r) + " > tolerance " + vf::jnum(PARAMS[S.pi].tol));
}

static void checkGeodesic(Setup &S, int i, int j, const Fail &fail, vf::Report *rep)
{
    auto &css = S.css;
    std::vector<ob::State *> geo;
    bool ok = css->discreteGeodesic(S.lat[i], S.lat[j], true, &geo);
    double ld = PARAMS[S.pi].lambda * PARAMS[S.pi].delta;
    bool lazy = S.kind == "tangent";
    if (geo.empty())
        fail("C16|" + S.kind + "|geodesic-empty", "discreteGeodesic returned no states (not even a copy of the start)");
    for (size_t k = 0; k < geo.size(); ++k)
    {
        if (!lazy || k == 0)
            checkOnManifold(S, geo[k], "geodesic", fail);
        if (k && !lazy)
        {
            double d = css->distance(geo[k - 1], geo[k]);
            if (d > ld * (1 + 1e-9))
                fail("C16|" + S.kind + "|geodesic-step-too-long", "consecutive geodesic states are " + vf::jnum(d) + " apart, step bound lambda*delta = " + vf::jnum(ld));
        }
    }
    if (ok && !geo.empty())
    {
        double d = css->distance(geo.back(), S.lat[j]);
        if (d > PARAMS[S.pi].delta * (1 + 1e-9))
            fail("C16|" + S.kind + "|geodesic-success-far-from-target", "discreteGeodesic reported success but ends " + vf::jnum(d) + " from the target (delta " + vf::jnum(PARAMS[S.pi].delta) + ")");
    }
    if (rep)
    {
        rep->metrics["geodesics_reaching_target"] += ok;
        rep->outcomes.insert((uint64_t)ok * 1000 + geo.size());
    }
    for (auto *s : geo)
        css->freeState(s);
    // interpolation: on the manifold for every t
    ob::State *t = css->allocState();
    for (double tt : {0.0, 1e-9, 0.25, 0.5, 0.75, 1.0 - 1e-9, 1.0})
    {
        css->interpolate(S.lat[i], S.lat[j], tt, t);
        checkOnManifold(S, t, "interpolate", fail);
    }
    css->freeState(t);
}

// one sampler call under the oracle
static std::vector<vc::Point> sampleOnce(Setup &S, ob::StateSamplerPtr &smp, int mode, int centre, double dist, const std::map<size_t, int> &dev, const Fail &fail, uint64_t *obs)
{
    vc::Oracle o;
    o.dev = dev;
    o.horizon = 20000;
    vc::Install inst(o);
    ob::State *s = S.css->allocState();
    S.css->copyState(s, S.lat[centre]);
    try
    {
        if (mode == 0)
            smp->sampleUniform(s);
        else if (mode == 1)
            smp->sampleUniformNear(s, S.lat[centre], dist);
        else
            smp->sampleGaussian(s, S.lat[centre], dist);
        // a sample sitting exactly on a face of the ambient box was clamped there by enforceBounds(): the bounds cut the
        // manifold at that place (unbounded plane), which is outside the property's quantifier
        bool onFace = false;
        if (S.manifold == "plane")  // the only manifold that reaches the ambient box; on the compact ones a state on a face IS off the manifold
        {
            const Vx &v = *s->as<ob::ConstrainedStateSpace::StateType>();
            for (int i = 0; i < v.size(); ++i)
                if (std::fabs(v[i]) == 4.0)
                    onFace = true;
        }
        if (!onFace)
            checkOnManifold(S, s, mode == 0 ? "sampleUniform" : mode == 1 ? "sampleUniformNear" : "sampleGaussian", fail);
        if (!S.css->satisfiesBounds(s))
            fail("C16|" + S.kind + "|sample-out-of-bounds", "sample violates the ambient bounds");
    }
    catch (vc::Horizon &)
    {
        fail("C16|" + S.kind + "|sampler-draw-horizon", "more than 20000 draws in one sampler call");
    }
    catch (ompl::Exception &e)
    {
        // atlas samplers may give up loudly ("cannot sample")
        if (obs)
            *obs = 0xE0;
    }
    if (obs && !*obs)
    {
        vf::Hash h;
        const Vx &v = *s->as<ob::ConstrainedStateSpace::StateType>();
        for (int i = 0; i < v.size(); ++i)
            h.addd(v[i]);
        *obs = h.h;
    }
    S.css->freeState(s);
    return o.trace;
}

static void runProjected(const std::string &manifold, const vf::Args &a, vf::Report &rep)
{
    int L0 = a.thorough() ? 12 : 8;
    for (int pi = 0; pi < 5; ++pi)
    {
        int L = pi >= 3 ? 2 * L0 + 2 : L0;  // the wander-limit settings need pairs at many separations
        Setup S(manifold, "projected", pi, L);
        std::string base = "\"kind\":\"projected\",\"manifold\":" + vf::jesc(manifold) + ",\"params\":" + std::to_string(pi);
        for (size_t i = 0; i < S.lat.size(); ++i)
            for (size_t j = 0; j < S.lat.size(); ++j)
            {
                if (a.expired())
                {
                    rep.exhaustive = false;
                    return;
                }
                std::string rj = "{" + base + ",\"op\":\"geodesic\",\"L\":" + std::to_string(L) + ",\"i\":" + std::to_string(i) + ",\"j\":" + std::to_string(j) + "}";
                checkGeodesic(S, i, j, [&](const std::string &k, const std::string &w) { rep.fail(k, w, rj); }, &rep);
                rep.evaluations++;
                rep.transitions += 8;
                vf::Hash h;
                h.adds(rj);
                if (i != j)
                    rep.nontrivial.insert(h.h);
            }
        rep.states += S.lat.size();
        // samplers: every mode x centres x distances x answer streams
        auto smp = S.css->allocStateSampler();
        for (int mode = 0; mode < 3; ++mode)
            for (int centre : {0, (int)S.lat.size() - 1})
                for (double dist : {0.0, 0.3, 5.0})
                {
                    if (mode == 0 && (centre != 0 || dist != 0.0))
                        continue;
                    auto run = [&](const std::map<size_t, int> &dev) {
                        std::string rj = "{" + base + ",\"op\":\"sample\",\"mode\":" + std::to_string(mode) + ",\"centre\":" + std::to_string(centre) + ",\"dist\":" + vf::jnum(dist) + ",\"dev\":" + vc::devJson(dev) + "}";
                        uint64_t obs = 0;
                        auto tr = sampleOnce(S, smp, mode, centre, dist, dev, [&](const std::string &k, const std::string &w) { rep.fail(k, w, rj); }, &obs);
                        rep.evaluations++;
                        rep.transitions++;
                        rep.outcomes.insert(obs);
                        vf::Hash h;
                        h.adds(rj);
                        if (!dev.empty())
                            rep.nontrivial.insert(h.h);
                        return tr;
                    };
                    vc::Product prod;
                    prod.depth = S.n <= 3 ? 3 : 2;
                    prod.explore(run);
                    vc::DBE dbe;
                    dbe.D = 2;
                    dbe.N = 8;
                    dbe.explore(run);
                }
        if (pi == 0 && !S.lat.empty())
            rep.sample("{" + base + ",\"op\":\"geodesic\",\"L\":" + std::to_string(L) + ",\"i\":0,\"j\":" + std::to_string(S.lat.size() - 1) + "}");
    }
    rep.bounds["lattice_points"] = std::to_string(L0);
    rep.bounds["lattice_points_lambda_near_1"] = std::to_string(2 * L0 + 2);
}

// ---- stateful spaces: BFS over op sequences, state = chart list ----
struct AtlasSys
{
    std::string manifold, kind;
    int pi, L;
    std::vector<std::string> alphabet;
    AtlasSys(const std::string &m, const std::string &k, int p, int l, bool thorough) : manifold(m), kind(k), pi(p), L(l)
    {
        alphabet = {"U0", "U1", "N0", "N2", "M0b", "M2c", "I01", "I21", "G02", "G13", "G30", "C"};
        if (thorough)
            for (const char *x : {"U2", "I32", "G21", "S1", "M1a"})
                alphabet.push_back(x);
    }
    std::string replayBase() const
    {
        return "\"kind\":" + vf::jesc(kind) + ",\"manifold\":" + vf::jesc(manifold) + ",\"params\":" + std::to_string(pi);
    }
    // applies the sequence on a fresh space; checks every op's outputs; returns canonical chart dump
    std::string run(const std::vector<std::string> &seq, const Fail &fail, vf::Report *rep)
    {
        Setup S(manifold, kind, pi, L);
        auto *atlas = S.css->as<ob::AtlasStateSpace>();
        if (S.lat.size() < 4)
            return "too-few-lattice-points";
        atlas->anchorChart(S.lat[0]);
        auto smp = S.css->allocStateSampler();
        for (auto &op : seq)
        {
            if (op[0] == 'U' || op[0] == 'S')
            {
                // sampleUniform under a fixed answer stream variant (default / first draw at its extremes)
                std::map<size_t, int> dev;
                int v = op[1] - '0';
                if (v == 1)
                    dev[0] = 1;
                else if (v == 2)
                {
                    dev[0] = 2;
                    dev[1] = 1;
                }
                uint64_t obs = 0;
                sampleOnce(S, smp, op[0] == 'U' ? 0 : 2, 1, 0.4, dev, fail, &obs);
            }
            else if (op[0] == 'N')
            {
                uint64_t obs = 0;
                sampleOnce(S, smp, 1, op[1] - '0', 0.5, {}, fail, &obs);
            }
            else if (op[0] == 'M')
            {
                // sampleUniformNear with a distance far beyond the curvature radius: tangent-space samples miss the manifold, the
                // projection attempts run out and the sampler's fallback path is taken
                uint64_t obs = 0;
                sampleOnce(S, smp, 1, op[1] - '0', op[2] == 'a' ? 4.0 : op[2] == 'b' ? 8.0 : 16.0, {}, fail, &obs);
            }
            else if (op[0] == 'I')
            {
                ob::State *t = S.css->allocState();
                for (double tt : {0.0, 0.5, 1.0})
                {
                    S.css->interpolate(S.lat[op[1] - '0'], S.lat[op[2] - '0'], tt, t);
                    checkOnManifold(S, t, "interpolate", fail);
                }
                S.css->freeState(t);
            }
            else if (op[0] == 'G')
                checkGeodesic(S, op[1] - '0', op[2] - '0', fail, rep);
            else if (op[0] == 'C')
            {
                S.css->clear();
                atlas->anchorChart(S.lat[0]);
            }
        }
        // canonical state: the chart list (origins rounded, in creation order — creation order feeds later chart look-ups)
        std::string c = "n" + std::to_string(atlas->getChartCount()) + ":";
        for (std::size_t i = 0; i < atlas->getChartCount(); ++i)
        {
            const Eigen::Map<Vx> &o = *atlas->charts_[i]->getOrigin();
            char b[32];
            for (int k = 0; k < o.size(); ++k)
            {
                snprintf(b, sizeof b, "%.6f,", o[k]);
                c += b;
            }
            c += ";";
        }
        return c;
    }
};

static void runAtlas(const std::string &manifold, const std::string &kind, const vf::Args &a, vf::Report &rep)
{
  for (int pset : {0, 5})
  {
    int depth = pset == 0 ? (a.thorough() ? 5 : 4) : (a.thorough() ? 3 : 2);
    AtlasSys sys(manifold, kind, pset, 6, a.thorough());
    std::set<std::string> seen;
    std::vector<std::vector<std::string>> frontier{{}};
    seen.insert(sys.run({}, [](const std::string &, const std::string &) {}, nullptr));
    rep.states++;
    for (int d = 1; d <= depth && !frontier.empty(); ++d)
    {
        std::vector<std::vector<std::string>> next;
        for (auto &h : frontier)
            for (auto &op : sys.alphabet)
            {
                if (a.expired())
                {
                    rep.exhaustive = false;
                    rep.caps.push_back("deadline at depth " + std::to_string(d));
                    return;
                }
                auto h2 = h;
                h2.push_back(op);
                std::string rj = "{" + sys.replayBase() + ",\"op\":\"sequence\",\"seq\":" + vf::jstrs(h2) + "}";
                bool failed = false;
                std::string canon = sys.run(h2, [&](const std::string &k, const std::string &w) {
                    failed = true;
                    rep.fail(k, w, rj);
                }, &rep);
                rep.transitions++;
                rep.evaluations++;
                vf::Hash hh;
                hh.adds(canon);
                rep.outcomes.insert(hh.h);
                if (failed)
                    continue;
                if (seen.insert(canon).second)
                {
                    rep.states++;
                    rep.nontrivial.insert(hh.h);
                    if (d < depth)
                        next.push_back(h2);
                    if (rep.samples.size() < 2 && h2.size() == 3)
                        rep.sample(rj);
                }
            }
        frontier.swap(next);
    }
    // samplers on a freshly anchored atlas: every mode x centres x distances (up to far beyond the curvature radius) x <= 1 deviation
    // among the first 8 (thorough 16) draws
    for (int mode = 0; mode < 3; ++mode)
        for (int centre : {0, 2})
            for (double dist : {0.0, 0.5, 4.0, 16.0})
            {
                if (mode == 0 && (centre != 0 || dist != 0.0))
                    continue;
                auto run = [&](const std::map<size_t, int> &dev) {
                    Setup S(manifold, kind, pset, 6);
                    if (S.lat.size() < 4)
                        return std::vector<vc::Point>{};
                    S.css->as<ob::AtlasStateSpace>()->anchorChart(S.lat[0]);
                    auto smp = S.css->allocStateSampler();
                    std::string rj = "{" + sys.replayBase() + ",\"op\":\"sample\",\"mode\":" + std::to_string(mode) + ",\"centre\":" + std::to_string(centre) + ",\"dist\":" + vf::jnum(dist) + ",\"dev\":" + vc::devJson(dev) + "}";
                    uint64_t obs = 0;
                    auto tr = sampleOnce(S, smp, mode, centre, dist, dev, [&](const std::string &k, const std::string &w) { rep.fail(k, w, rj); }, &obs);
                    rep.evaluations++;
                    rep.transitions++;
                    rep.outcomes.insert(obs);
                    vf::Hash h;
                    h.adds(rj);
                    if (!dev.empty())
                        rep.nontrivial.insert(h.h);
                    return tr;
                };
                vc::DBE dbe;
                dbe.D = 1;
                dbe.N = a.thorough() ? 16 : 8;
                dbe.expired = [&] { return a.expired(); };
                dbe.explore(run);
                if (dbe.cut)
                    rep.exhaustive = false;
            }
    // canon-on-replay (the chart list is the state: the same history must rebuild the same atlas)
    {
        std::vector<std::string> h = {"U0", "G02", "N2"};
        auto nf = [](const std::string &, const std::string &) {};
        if (sys.run(h, nf, nullptr) != sys.run(h, nf, nullptr))
            rep.fail("C16|" + kind + "|nondeterministic-replay", "the same op history built two different atlases", "{" + sys.replayBase() + ",\"op\":\"sequence\",\"seq\":" + vf::jstrs(h) + "}");
        rep.validated++;
    }
    rep.bounds[pset == 0 ? "sequence_depth" : "sequence_depth_newton_budget_2"] = std::to_string(depth);
    rep.bounds["alphabet"] = std::to_string(sys.alphabet.size());
  }
}

// planners on the sphere: every vertex of a solution path is on the manifold
static void runPlanner(const std::string &kind, const vf::Args &a, vf::Report &rep)
{
    for (const char *pl : {"RRT", "KPIECE1"})
    {
        auto run = [&](const std::map<size_t, int> &dev) {
            Setup S("sphere3", kind, 0, 6);
            std::string rj = "{\"kind\":" + vf::jesc(kind) + ",\"manifold\":\"sphere3\",\"params\":0,\"op\":\"plan\",\"planner\":" + vf::jesc(pl) + ",\"dev\":" + vc::devJson(dev) + "}";
            vc::Oracle o;
            o.dev = dev;
            o.horizon = 400000;
            vc::Install inst(o);
            if (kind != "projected")
                S.css->as<ob::AtlasStateSpace>()->anchorChart(S.lat[0]);
            if (kind != "projected")
                S.css->as<ob::AtlasStateSpace>()->anchorChart(S.lat[3]);
            auto pdef = std::make_shared<ob::ProblemDefinition>(S.csi);
            pdef->addStartState(S.lat[0]);
            ob::ScopedState<> g(S.css);
            S.css->copyState(g.get(), S.lat[3]);
            pdef->setGoalState(g, 0.15);
            ob::PlannerPtr p;
            if (std::string(pl) == "RRT")
                p = std::make_shared<og::RRT>(S.csi);
            else
                p = std::make_shared<og::KPIECE1>(S.csi);
            p->setProblemDefinition(pdef);
            long calls = 0;
            try
            {
                p->setup();
                ob::PlannerTerminationCondition ptc([&] { return ++calls > 60; });
                p->solve(ptc);
            }
            catch (vc::Horizon &)
            {
            }
            catch (ompl::Exception &)
            {
            }
            uint64_t obs = pdef->getSolutionCount();
            for (auto &sol : pdef->getSolutions())
                if (auto *path = dynamic_cast<og::PathGeometric *>(sol.path_.get()))
                    for (auto *s : path->getStates())
                    {
                        checkOnManifold(S, s, "solution-path-vertex", [&](const std::string &k, const std::string &w) { rep.fail(k, w, rj); });
                        obs = obs * 31 + (uint64_t)(S.residual(s) * 1e12);
                    }
            rep.evaluations++;
            rep.transitions += calls;
            rep.outcomes.insert(obs);
            vf::Hash h;
            h.adds(rj);
            if (!dev.empty())
                rep.nontrivial.insert(h.h);
            rep.metrics["solved_executions"] += pdef->getSolutionCount() > 0;
            return o.trace;
        };
        vc::DBE dbe;
        dbe.D = 1;
        dbe.N = a.thorough() ? 40 : 25;
        dbe.expired = [&] { return a.expired(); };
        dbe.explore(run);
        if (dbe.cut)
            rep.exhaustive = false;
        rep.states++;
    }
    rep.sample("{\"kind\":" + vf::jesc(kind) + ",\"manifold\":\"sphere3\",\"params\":0,\"op\":\"plan\",\"planner\":\"RRT\",\"dev\":[[3,2]]}");
}

int main(int argc, char **argv)
{
    ompl::msg::setLogLevel(ompl::msg::LOG_NONE);
    vf::virtualSleep() = true;
    vf::Harness H;
    H.property = "C16";
    H.jobs = [](const vf::Args &a) {
        std::vector<std::string> j;
        for (const char *m : {"sphere3", "torus", "plane", "circle", "sphere4"})
            j.push_back(std::string("projected-") + m);
        std::vector<std::string> am = {"sphere3", "torus"};
        if (a.thorough())
        {
            am.push_back("plane");
            am.push_back("circle");
        }
        for (auto &m : am)
            for (const char *k : {"atlas", "tangent"})
                j.push_back(std::string(k) + "-" + m);
        for (const char *k : {"projected", "atlas", "tangent"})
            j.push_back(std::string("plan-") + k);
        return j;
    };
    H.run = [](const std::string &job, const vf::Args &a, vf::Report &rep) {
        std::string k = job.substr(0, job.find('-')), m = job.substr(job.find('-') + 1);
        if (k == "projected")
            runProjected(m, a, rep);
        else if (k == "plan")
            runPlanner(m, a, rep);
        else
            runAtlas(m, k, a, rep);
        rep.rule = "manifolds: unit sphere in R^3 and R^4, torus, plane, sphere-plane intersection (co-dimension 2); (delta, lambda, tolerance) in {(.05,2,1e-4),(.2,5,1e-4),(.02,1.5,1e-8)} and, for the projected space, {(.05,1.1,1e-4),(.1,1.02,1e-6)}. Projected "
                   "space: ALL ordered pairs of an on-manifold lattice through discreteGeodesic and interpolate at 7 parameters, all sampler modes under products / <= 2 deviations of oracle "
                   "answers. Atlas and tangent bundle (charts accumulate): BFS over ALL op sequences up to the depth over {sampleUniform variants, sampleUniformNear, interpolate, discreteGeodesic, "
                   "clear} with the chart list as canonical state, same oracles in every step; RRT / KPIECE1 on the sphere under all single deviations: every solution vertex on the manifold; "
                   "non-trivial = distinct pairs / new chart lists / deviated streams";
        rep.assumptions = {"lattice points where the constraint Jacobian is singular are excluded (the manifold's singularity, not the library's)", "ambient bounds are roomy: bounds cutting the manifold are outside the quantifier",
                           "tangent bundle: intermediate geodesic states and the step bound are exempt, as the statement says", "the constraint is re-evaluated by the harness: |f(x)| <= tolerance"};
    };
    H.replay = [](const vf::JV &v) {
        bool failed = false;
        Fail fail = [&](const std::string &k, const std::string &w) {
            printf("%s: %s\n", k.c_str(), w.c_str());
            failed = true;
        };
        std::string op = v["op"].s, kind = v["kind"].s, m = v["manifold"].s;
        vf::Args a;
        if (op == "sequence")
        {
            AtlasSys sys(m, kind, (int)v["params"].i(), 6, true);
            std::vector<std::string> seq;
            for (auto &x : v["seq"].a)
                seq.push_back(x.s);
            sys.run(seq, fail, nullptr);
        }
        else if (op == "geodesic")
        {
            Setup S(m, kind, (int)v["params"].i(), v.has("L") ? (int)v["L"].i() : 12);  // the lattice stride depends on the requested size
            checkGeodesic(S, (int)v["i"].i() % S.lat.size(), (int)v["j"].i() % S.lat.size(), fail, nullptr);
        }
        else
        {
            vf::Report r;
            if (op == "plan")
                runPlanner(kind, a, r);
            else if (kind == "projected")
                runProjected(m, a, r);
            else
                runAtlas(m, kind, a, r);  // op "sample" on an atlas / tangent bundle: re-run the (cheap) job that contains the case
            for (auto &f : r.failures)
                fail(f.key, f.what);
        }
        return failed;
    };
    return vf::main(argc, argv, H);
}
