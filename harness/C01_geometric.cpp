// C01 — geometric planners report only real paths. E1: deviation-bounded exploration of every random answer and state
// sample of the real planners on tiny cell worlds, dense path oracle on every execution.
#include "path_oracle.hpp"
#include "guard.hpp"
#include "asanhook.hpp"
#include "notime.hpp"

using namespace vw;

struct Exec
{
    Cfg cfg;
    std::map<size_t, int> dev;
    std::string json() const
    {
        return "{" + cfg.json() + ",\"dev\":" + vc::devJson(dev) + "}";
    }
};

// one execution: fresh everything, oracle installed for setup (default stream, own salt) and for solve (explored stream)
static std::vector<vc::Point> execute(const Exec &e, const vo::Fail &fail, uint64_t *obs = nullptr, vo::Facts *facts = nullptr, long *evals = nullptr, int *status = nullptr)
{
    vc::Oracle setupOracle;
    setupOracle.salt = 77;
    std::unique_ptr<Problem> P;
    {
        vc::Install i(setupOracle);
        P = std::make_unique<Problem>(e.cfg);
    }
    vc::Oracle o;
    o.dev = e.dev;
    o.horizon = 400000;
    o.salt = vpl::streamSalt(e.cfg.planner);
    ob::PlannerStatus st;
    bool horizon = false;
    {
        vc::Install i(o);
        try
        {
            st = P->solve(e.cfg.budget);
        }
        catch (vc::Horizon &)
        {
            horizon = true;
        }
        catch (ompl::Exception &ex)
        {
            // a planner may refuse a problem loudly (e.g. an informed planner given a goal it cannot sample); the law for
            // that case is only that no solution was added
            if (P->pdef->getSolutionCount() != 0)
                fail("C01|exception-after-adding-path|" + e.cfg.planner, std::string("solve() threw '") + ex.what() + "' after adding a solution path");
            if (status)
                *status = -1;
            if (obs)
                *obs = 0xE0CE9710;
            return o.trace;
        }
    }
    const std::string &pl = e.cfg.planner;
    unsigned flags = vpl::find(pl)->flags;
    if (horizon)
    {
        fail("C01|draw-horizon|" + pl, "more than 400000 random draws inside one solve() with an evaluation budget of " + std::to_string(e.cfg.budget));
        return o.trace;
    }
    vo::checkStatus(*P, st, 0, pl, fail);
    auto s = (ob::PlannerStatus::StatusType)st;
    if (e.cfg.goal == "region-unsampleable" && s != ob::PlannerStatus::UNRECOGNIZED_GOAL_TYPE && s != ob::PlannerStatus::TIMEOUT && !st)
    {
        // planners that need a sampleable goal answer UNRECOGNIZED_GOAL_TYPE (or INVALID_GOAL); nothing to assert beyond the status law
    }
    for (auto &sol : P->pdef->getSolutions())
        vo::checkSolution(*P, sol, flags, pl, fail, facts);
    if (obs)
        *obs = vo::observe(*P, st);
    if (evals)
        *evals = P->evals;
    if (status)
        *status = (int)s;
    // tear down inside the execution so that ASan attributes destructor errors to it
    P.reset();
    return o.trace;
}

static std::vector<Cfg> configs(const std::string &planner, bool thorough)
{
    std::vector<Cfg> v;
    unsigned flags = vpl::find(planner)->flags;
    auto add = [&](const std::string &map, const std::string &space, const std::string &goal, double thr, double range, double res, int budget) {
        Cfg c;
        c.planner = planner;
        c.map = map;
        c.space = space;
        c.goal = goal;
        c.threshold = thr;
        c.range = range;
        c.resolution = res;
        c.budget = budget;
        v.push_back(c);
    };
    int B = planner == "XXL" ? 800 : 60;  // XXL evaluates the condition inside its layered sub-searches: 60 evaluations never leave the first region
    if ((flags & vpl::MULTILEVEL) && !thorough)
    {
        // multilevel planners are an order of magnitude slower per execution (roadmap + path-restriction machinery): the quick tier
        // drives a reduced set, with the two-level sequence R^2 <- SE(2) in the SE(2) configurations
        add("wallgap4", "R2", "state", 0.3, 0, 0.02, 40);
        add("diag4", "R2", "state", 0.3, 10, 0.2, 40);
        add("enclosed4", "R2", "state", 0.3, 0, 0.02, 40);
        add("maze6", "R2", "region-unsampleable", 0.5, 0, 0.02, 40);
        add("wallgap4", "SE2", "state", 0.3, 0, 0.02, 40);
        add("empty4", "SE2", "states", 0.3, 0, 0.05, 40);
        add("wallgap4", "R2", "state", 0.3, 0, 0.02, 40);
        v.back().starts = 3;
        return v;
    }
    if ((flags & vpl::VARIANT) && !thorough)
    {
        // option variants share their solve() loop with the base planner: the quick tier drives the option branches on a reduced set
        add("wallgap4", "R2", "state", 0.3, 0, 0.02, B);
        add("utrap4", "R2", "state", 0.3, 0, 0.02, B);
        add("empty4", "R2", "state", 1e-9, 0, 0.02, B);
        add("diag4", "R2", "state", 0.3, 10, 0.2, B);
        add("wallgap4", "R2", "states", 0.3, 0.7, 0.05, B);
        add("maze6", "R2", "region-unsampleable", 0.5, 0, 0.02, B);
        add("maze6", "SE2", "states", 0.3, 0, 0.05, B);
        add("wallgap4", "R2", "state", 0.3, 0, 0.02, B);
        v.back().starts = 3;
        return v;
    }
    for (auto &m : maps())
        add(m.name, "R2", "state", 0.3, 0, 0.02, B);
    add("empty4", "R2", "state", 1e-9, 0, 0.02, B);  // tiny threshold: only the goal state itself satisfies it
    add("wallgap4", "R2", "states", 0.3, 0.7, 0.05, B);
    add("diag4", "R2", "state", 0.3, 10, 0.2, B);  // coarse resolution, long range: corner cutting must stay within 2L
    add("diag4", "R2", "state", 0.3, 0.7, 0.01, B);
    add("maze6", "R2", "region-unsampleable", 0.5, 0, 0.02, B);
    add("wallgap4", "SE2", "state", 0.3, 0, 0.02, B);
    add("maze6", "SE2", "states", 0.3, 0, 0.05, B);
    // several start states, the first one invalid
    add("wallgap4", "R2", "state", 0.3, 0, 0.02, B);
    v.back().starts = 3;
    add("utrap4", "R2", "states", 0.3, 0.7, 0.05, B);
    v.back().starts = 3;
    // projection-based planners: projection cells that straddle obstacle boundaries
    static const char *projPlanners[] = {"SBL", "KPIECE1", "BKPIECE1", "LBKPIECE1", "ProjEST", "PDST", "STRIDE", "STRIDE+proj", "EST", "BiEST"};
    for (const char *pp : projPlanners)
        if (planner == pp)
        {
            add("wallgap4", "R2", "state", 0.3, 0, 0.02, B);
            v.back().proj = "coarse";
            add("corridor6", "R2", "state", 0.3, 0.7, 0.05, 2 * B);
            v.back().proj = "coarse";
            add("diag4", "R2", "state", 0.3, 10, 0.02, B);
            v.back().proj = "coarse";
        }
    static const char *carPlanners[] = {"RRT", "EST", "KPIECE1", "SST", "PDST", "RLRT"};
    for (const char *cp : carPlanners)
        if (planner == cp)
        {
            add("wallgap4", "Dubins", "state", 0.5, 0, 0.02, 40);
            add("empty4", "ReedsShepp", "state", 0.5, 0, 0.02, 40);
        }
    if (thorough)
    {
        for (auto &m : maps())
        {
            add(m.name, "R2", "state", 0.3, 0.7, 0.05, 120);
            add(m.name, "SE2", "state", 0.3, 0, 0.02, B);
        }
    }
    (void)flags;
    return v;
}

static std::string crashKey(const std::string &planner, const vg::Outcome &o)
{
    if (o.timeout || o.sig == SIGALRM)
        return "C01|hang|" + planner;
    if (o.sig)
        return "C01|crash|" + planner + "|signal-" + std::to_string(o.sig);
    return "C01|crash|" + planner + "|exit-" + std::to_string(o.code);
}

int main(int argc, char **argv)
{
    ompl::msg::setLogLevel(ompl::msg::LOG_NONE);
    vf::Harness H;
    H.property = "C01";
    H.jobs = [](const vf::Args &) {
        std::vector<std::string> j;
        for (auto &e : vpl::planners())
            if (!(e.flags & vpl::TWO_THREADED))
                j.push_back(e.name);
        return j;
    };
    H.run = [](const std::string &job, const vf::Args &a, vf::Report &rep) {
        const std::string planner = job;
        rep.maxFailuresPerKey = 1;
        double worstRun = 0;
        int jobCrashes = 0;
        const int maxJobCrashes = a.thorough() ? 6 : 2;
        size_t N = a.thorough() ? 60 : 40;
        if ((vpl::find(planner)->flags & vpl::MULTILEVEL) && !a.thorough())
            N = 24;
        int D = a.thorough() ? 2 : 1;
        size_t core = a.thorough() ? 3 : 2;
        for (auto &cfg : configs(planner, a.thorough()))
        {
            if (a.expired() || jobCrashes >= maxJobCrashes)
            {
                rep.exhaustive = false;
                rep.caps.push_back((jobCrashes >= maxJobCrashes ? "crash cap reached: " : "deadline: ") + std::string("configurations of ") + planner + " left unexplored");
                break;
            }
            std::set<std::string> skip;
            int crashes = 0;
            for (;;)
            {
                vg::Group G;
                G.onChildStart = [] { vf::virtualSleep() = true; };
                auto body = [&](vf::Report &r) {
                    auto run = [&](const std::map<size_t, int> &dev) -> std::vector<vc::Point> {
                        Exec e{cfg, dev};
                        std::string ej = e.json();
                        if (skip.count(ej))
                            return {};
                        G.announce(ej);
                        alarm(6);
                        uint64_t obs = 0;
                        vo::Facts facts;
                        long evals = 0;
                        int status = 0;
                        long a0 = vf::asanErrorCount();
                        auto tr = execute(e, [&](const std::string &k, const std::string &w) { r.fail(k, w, ej); }, &obs, &facts, &evals, &status);
                        if (vf::asanErrorCount() != a0)
                            r.fail("C01|memory|" + planner, "AddressSanitizer report during solve()/teardown", ej);
                        alarm(0);
                        r.evaluations++;
                        r.transitions += evals;
                        r.outcomes.insert(obs);
                        vf::Hash h;
                        h.adds(ej);
                        if (!dev.empty())
                            r.nontrivial.insert(h.h);
                        r.metrics["max_invalid_run_in_L"] = std::max(r.metrics["max_invalid_run_in_L"], facts.worstRunL);
                        r.metrics["max_choice_points"] = std::max<double>(r.metrics["max_choice_points"], tr.size());
                        r.metrics["solved_executions"] += (status == ob::PlannerStatus::EXACT_SOLUTION || status == ob::PlannerStatus::APPROXIMATE_SOLUTION);
                        if (r.samples.size() < 2 && dev.size() >= 1 && (r.evaluations % 211) == 0)
                            r.sample(ej);
                        G.sh->done++;
                        return tr;
                    };
                    // replay-twice gate on the default execution: identical observation required
                    {
                        Exec e{cfg, {}};
                        uint64_t o1 = 0, o2 = 0;
                        G.announce(e.json());
                        alarm(40);
                        execute(e, [](const std::string &, const std::string &) {}, &o1);
                        void *pad = malloc(4096 + 48);  // shift the heap between the two runs
                        execute(e, [](const std::string &, const std::string &) {}, &o2);
                        free(pad);
                        alarm(0);
                        if (o1 != o2)
                            r.fail("C01|nondeterministic-replay|" + planner, "the same answer stream gave two different results (hidden nondeterminism)", e.json());
                        r.validated++;
                    }
                    vc::DBE dbe;
                    dbe.D = D;
                    dbe.N = N;
                    dbe.expired = [&] { return a.expired(); };
                    dbe.explore(run);
                    vc::Product prod;
                    prod.depth = core;
                    prod.kinds = [](unsigned char k) { return k == vc::STATE; };
                    prod.expired = [&] { return a.expired(); };
                    prod.explore(run);
                    if (dbe.cut || prod.cut)
                    {
                        r.exhaustive = false;
                        r.caps.push_back("deadline inside " + planner + " / " + cfg.map);
                    }
                    r.states++;
                };
                vg::Outcome out = G.run(body, rep, 600);
                if (out.clean)
                    break;
                // the child died: re-run the announced execution alone, with a longer limit, before calling it a finding
                std::string cur = out.current;
                if (cur.empty())
                {
                    rep.exhaustive = false;
                    rep.caps.push_back("child died before announcing an execution in " + planner + " / " + cfg.map);
                    break;
                }
                vg::Group G2;
                G2.onChildStart = [] { vf::virtualSleep() = true; };
                vf::Report scratch;
                vg::Outcome single = G2.run(
                    [&](vf::Report &r) {
                        vf::JParser jp(cur);
                        vf::JV v = jp.parse();
                        Exec e{Cfg::fromJson(v), {}};
                        for (auto &d : v["dev"].a)
                            e.dev[(size_t)d[0].i()] = (int)d[1].i();
                        alarm(60);
                        execute(e, [](const std::string &, const std::string &) {});
                        alarm(0);
                    },
                    scratch, 80);
                if (!single.clean && !single.sig && !single.timeout && single.code == 4)
                {
                    // exit code 4 is the choice oracle's own "replay divergence" abort (a deviation recorded in one run does not exist in the
                    // next: the planner is not a function of the answer stream there): an internal limit of the exploration, reported as a
                    // cap - never a finding of this property (hidden nondeterminism is C20's subject)
                    rep.exhaustive = false;
                    rep.caps.push_back("answer-stream replay diverged for " + planner + ": execution skipped (" + cur.substr(0, 120) + ")");
                }
                else if (!single.clean)
                    rep.fail(crashKey(planner, single), "solve()/teardown " + std::string(single.timeout || single.sig == SIGALRM ? "did not return within 60 s (10x the in-group limit)" : "crashed") + " (" + cfg.map + ", " + cfg.space + ")", cur);
                else
                    rep.caps.push_back("non-reproducible child death in " + planner + " / " + cfg.map + " (signal " + std::to_string(out.sig) + ", timeout " + std::to_string(out.timeout) + ")");
                skip.insert(cur);
                ++jobCrashes;
                if (++crashes >= 2 || jobCrashes >= maxJobCrashes)
                {
                    rep.exhaustive = false;
                    rep.caps.push_back("crashing/hanging executions in " + planner + " / " + cfg.map + ": rest of this configuration skipped");
                    break;
                }
            }
        }
        (void)worstRun;
        rep.rule = "per planner and configuration (map, space, goal type/threshold, range, resolution): every execution with <= D departures from the default answer stream among the "
                   "first N choice points (every primitive random draw via hook H1 and every state sample via the sampler-allocator seam) plus the full product over the first d state samples; "
                   "each execution = fresh space/problem/planner, termination at a fixed evaluation index; oracle = start/bounds/goal/flags/status coherence + dense re-validation at L/64 "
                   "(no invalid stretch > 2L) + re-check of every edge for exactly-validating planners; states = configurations, transitions = termination-condition evaluations, "
                   "non-trivial = executions with at least one non-default answer";
        rep.bounds["D"] = std::to_string(D);
        rep.bounds["N"] = std::to_string(N);
        rep.bounds["dense_core_state_samples"] = std::to_string(core);
        rep.assumptions = {"goal threshold > 0 (GoalRegion::isSatisfied is a strict <)",
                           "approximate solutions: |reported difference - distanceGoal(last)| <= threshold (informed-tree planners measure to the nearest goal vertex)",
                           "path vertices other than the start need not be individually valid; the statement's bound is the 2L invalid stretch",
                           "PRM, PRM*, SPARS, SPARStwo always run two threads and are explored under the thread scheduler (C19), not here",
                           "lattice state samples (two per cell, >= 0.05 from obstacle lines) + start/goal; continuous samples off the lattice are not covered"};
    };
    H.replay = [](const vf::JV &v) {
        Exec e{Cfg::fromJson(v), {}};
        for (auto &d : v["dev"].a)
            e.dev[(size_t)d[0].i()] = (int)d[1].i();
        bool failed = false;
        vf::virtualSleep() = true;
        // a crash or hang here fails the replay through the exit status of this process
        alarm(60);
        long a0 = vf::asanErrorCount();
        execute(e, [&](const std::string &k, const std::string &w) {
            printf("%s: %s\n", k.c_str(), w.c_str());
            failed = true;
        });
        if (vf::asanErrorCount() != a0)
        {
            printf("AddressSanitizer report\n");
            failed = true;
        }
        return failed;
    };
    return vf::main(argc, argv, H);
}
