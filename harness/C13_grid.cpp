// C13 — grids: E2 history BFS on the real Grid / GridN / GridB; canonical state = sorted cell list with private counters
// and flags plus both private heap arrays.
#include <ompl/datastructures/GridB.h>
#include "hbfs.hpp"
#include "asanhook.hpp"
#include <algorithm>

struct Gt
{
    bool operator()(int a, int b) const
    {
        return a > b;
    }
};
using GPlain = ompl::Grid<int>;
using GN = ompl::GridN<int>;
using GBl = ompl::GridB<int, std::less<int>>;
using GBm = ompl::GridB<int, std::less<int>, Gt>;  // external: smallest first, internal: largest first

using Co = std::vector<int>;

template <class G>
struct Traits;
template <>
struct Traits<GPlain>
{
    static constexpr int kind = 0;
    static bool lessExt(int a, int b) { return a < b; }
    static bool lessInt(int a, int b) { return a < b; }
};
template <>
struct Traits<GN>
{
    static constexpr int kind = 1;
    static bool lessExt(int a, int b) { return a < b; }
    static bool lessInt(int a, int b) { return a < b; }
};
template <>
struct Traits<GBl>
{
    static constexpr int kind = 2;
    static bool lessExt(int a, int b) { return a < b; }
    static bool lessInt(int a, int b) { return a < b; }
};
template <>
struct Traits<GBm>
{
    static constexpr int kind = 2;
    static bool lessExt(int a, int b) { return a < b; }
    static bool lessInt(int a, int b) { return a > b; }
};

struct Config
{
    int dim = 1;
    std::vector<Co> coords;  // coordinate alphabet
    int nData = 3;
    bool bounds = false;
    Co lo, hi;
    int limit = 0;  // 0 = default
    int cellCap = 100;
    int depth = 6;
    bool lean = false;  // fewer op variants (deep-heap alphabet)
    std::string name;
};

template <class G>
struct Sys
{
    Config cfg;
    static constexpr int kind = Traits<G>::kind;
    template <class O>
    std::vector<std::string> variants(O &, const std::string &)
    {
        return {};
    }
    static constexpr bool kModelInCanon = true;  // canon lists every cell with its data
    struct Obj
    {
        std::unique_ptr<G> g;
        std::map<Co, int> model;  // coord -> data
        std::string last;
        bool nbhOk = true;
        std::string nbhMsg;
    };
    void checkTransition(Obj &o, const std::vector<std::string> &, std::function<void(const std::string &, const std::string &)> fail)
    {
        if (!o.nbhOk)
            fail(std::string("C13|") + (kind == 0 ? "Grid" : kind == 1 ? "GridN" : "GridB") + "|op-result|after=" + opname(o.last), o.nbhMsg);
    }
    static typename G::Coord ec(const Co &c)
    {
        typename G::Coord e(c.size());
        for (size_t i = 0; i < c.size(); ++i)
            e[i] = c[i];
        return e;
    }
    static Co fromE(const typename G::Coord &e)
    {
        Co c(e.size());
        for (int i = 0; i < e.size(); ++i)
            c[i] = e[i];
        return c;
    }
    std::unique_ptr<Obj> make()
    {
        auto o = std::make_unique<Obj>();
        o->g = std::make_unique<G>(cfg.dim);
        if constexpr (kind >= 1)
        {
            if (cfg.bounds)
                o->g->setBounds(ec(cfg.lo), ec(cfg.hi));
            if (cfg.limit > 0)
                o->g->setInteriorCellNeighborLimit(cfg.limit);
        }
        return o;
    }
    static std::string cstr(const Co &c)
    {
        std::string s;
        for (size_t i = 0; i < c.size(); ++i)
            s += (i ? "," : "") + std::to_string(c[i]);
        return s;
    }
    static Co parseC(const std::string &s)
    {
        Co c;
        std::istringstream is(s);
        std::string t;
        while (std::getline(is, t, ','))
            c.push_back(atoi(t.c_str()));
        return c;
    }
    std::vector<Co> modelNeighbors(const Obj &o, const Co &c) const
    {
        std::vector<Co> r;
        for (size_t i = 0; i < c.size(); ++i)
            for (int d : {-1, 1})
            {
                Co n = c;
                n[i] += d;
                if (o.model.count(n))
                    r.push_back(n);
            }
        std::sort(r.begin(), r.end());
        return r;
    }
    std::vector<std::string> enabled(Obj &o)
    {
        std::vector<std::string> ops;
        for (auto &c : cfg.coords)
        {
            if (!o.model.count(c))
            {
                if ((int)o.model.size() < cfg.cellCap)
                    for (int d = 0; d < cfg.nData; ++d)
                    {
                        ops.push_back("N " + cstr(c) + " " + std::to_string(d));
                        if (d == 0 && !cfg.lean)
                            ops.push_back("n " + cstr(c) + " " + std::to_string(d));  // createCell without neighbour list
                    }
                // a cell that is created and then given up without ever being added: remove() "only updates the neighbour list" (its
                // documentation), i.e. it must undo what createCell did to the neighbours' counts; contents unchanged
                ops.push_back("c " + cstr(c) + " 0");
            }
            else
            {
                ops.push_back("R " + cstr(c));
                if (kind == 2)
                    for (int d = 0; d < cfg.nData; ++d)
                        if (o.model[c] != d)
                        {
                            ops.push_back("U " + cstr(c) + " " + std::to_string(d));
                            if ((d == 0 || d == cfg.nData - 1) && !cfg.lean)
                                ops.push_back("A " + cstr(c) + " " + std::to_string(d));  // silent change + updateAll
                        }
            }
        }
        if (!o.model.empty())
            ops.push_back("C");
        return ops;
    }
    void apply(Obj &o, const std::string &op)
    {
        char k = op[0];
        std::istringstream is(op.size() > 2 ? op.substr(2) : std::string());
        std::string cs;
        int d = 0;
        is >> cs >> d;
        Co c = parseC(cs);
        o.last = op.substr(0, 1);
        G &g = *o.g;
        switch (k)
        {
            case 'N':
            case 'n':
            {
                auto want = modelNeighbors(o, c);
                if constexpr (kind == 2)
                {
                    typename G::CellArray nbh;
                    auto *cell = g.createCell(ec(c), k == 'N' ? &nbh : nullptr);
                    cell->data = d;
                    g.add(cell);
                    if (k == 'N')
                    {
                        std::vector<Co> got;
                        for (auto *n : nbh)
                            got.push_back(fromE(n->coord));
                        std::sort(got.begin(), got.end());
                        if (got != want)
                        {
                            o.nbhOk = false;
                            o.nbhMsg = "createCell(" + cs + ") reported a wrong list of future neighbours";
                        }
                    }
                }
                else
                {
                    typename GPlain::CellArray nbh;
                    auto *cell = g.createCell(ec(c), k == 'N' ? &nbh : nullptr);
                    cell->data = d;
                    g.add(cell);
                    if (k == 'N')
                    {
                        std::vector<Co> got;
                        for (auto *n : nbh)
                            got.push_back(fromE(n->coord));
                        std::sort(got.begin(), got.end());
                        if (got != want)
                        {
                            o.nbhOk = false;
                            o.nbhMsg = "createCell(" + cs + ") reported a wrong list of future neighbours";
                        }
                    }
                }
                o.model[c] = d;
                break;
            }
            case 'c':
            {
                auto *cell = g.createCell(ec(c));
                cell->data = 0;
                if (g.remove(cell))
                {
                    o.nbhOk = false;
                    o.nbhMsg = "remove() of a cell that was created but never added returned true";
                }
                g.destroyCell(cell);
                break;
            }
            case 'R':
            {
                auto *cell = g.getCell(ec(c));
                bool r = g.remove(cell);
                if (!r)
                {
                    o.nbhOk = false;
                    o.nbhMsg = "remove() of a present cell returned false";
                }
                g.destroyCell(cell);
                o.model.erase(c);
                break;
            }
            case 'U':
                if constexpr (kind == 2)
                {
                    auto *cell = g.getCell(ec(c));
                    cell->data = d;
                    g.update(cell);
                    o.model[c] = d;
                }
                break;
            case 'A':
                if constexpr (kind == 2)
                {
                    auto *cell = g.getCell(ec(c));
                    cell->data = d;
                    g.updateAll();
                    o.model[c] = d;
                }
                break;
            case 'C':
                g.clear();
                o.model.clear();
                break;
        }
    }
    std::string canon(Obj &o)
    {
        std::vector<std::string> cells;
        for (auto it = o.g->begin(); it != o.g->end(); ++it)
        {
            auto *c = it->second;
            std::string s = cstr(fromE(c->coord)) + "=" + std::to_string(c->data);
            if constexpr (kind >= 1)
            {
                auto *cn = static_cast<typename GN::Cell *>(c);
                s += ":" + std::to_string(cn->neighbors) + (cn->border ? "b" : "i");
            }
            cells.push_back(s);
        }
        std::sort(cells.begin(), cells.end());
        std::string s;
        for (auto &c : cells)
            s += c + ";";
        if constexpr (kind == 2)
        {
            s += "|I:";
            for (auto *e : o.g->internal_.vector_)
                s += cstr(fromE(e->data->coord)) + ";";
            s += "|E:";
            for (auto *e : o.g->external_.vector_)
                s += cstr(fromE(e->data->coord)) + ";";
        }
        return s;
    }
    std::string outcome(Obj &o)
    {
        std::string s;
        for (auto &m : o.model)
            s += cstr(m.first) + "=" + std::to_string(m.second) + ";";
        return s;
    }
    static const char *opname(const std::string &l)
    {
        switch (l.empty() ? '0' : l[0])
        {
            case 'N': return "create+add";
            case 'n': return "create+add";
            case 'c': return "create+remove-unadded";
            case 'R': return "remove";
            case 'U': return "update";
            case 'A': return "updateAll";
            case 'C': return "clear";
        }
        return "init";
    }
    int boundaryDims(const Co &c) const
    {
        int r = 0;
        if (cfg.bounds)
            for (size_t i = 0; i < c.size(); ++i)
                if (c[i] == cfg.lo[i] || c[i] == cfg.hi[i])
                    ++r;
        return r;
    }
    void check(Obj &o, const std::vector<std::string> &hist, std::function<void(const std::string &, const std::string &)> fail)
    {
        G &g = *o.g;
        std::string K = std::string("C13|") + (kind == 0 ? "Grid" : kind == 1 ? "GridN" : "GridB") + "|";
        std::string after = std::string("|after=") + opname(o.last);
        long a0 = vf::asanErrorCount();
        if (!o.nbhOk)
            fail(K + "op-result" + after, o.nbhMsg);
        if (g.size() != o.model.size() || g.empty() != o.model.empty())
            fail(K + "size" + after, "size() " + std::to_string(g.size()) + " != cells present " + std::to_string(o.model.size()));
        // lookups: alphabet + one far-away coordinate
        auto probe = cfg.coords;
        {
            Co far(cfg.dim, 100);
            far[0] = -100;
            probe.push_back(far);
        }
        for (auto &c : probe)
        {
            bool want = o.model.count(c) > 0;
            auto *cell = g.getCell(ec(c));
            if (g.has(ec(c)) != want || (cell != nullptr) != want)
                fail(K + "lookup" + after, "has/getCell(" + cstr(c) + ") disagrees with the cells present");
            else if (cell && (fromE(cell->coord) != c || cell->data != o.model[c]))
                fail(K + "lookup-cell" + after, "getCell(" + cstr(c) + ") returned a cell with other coordinates or data");
            // neighbours of any coordinate (present or not)
            std::vector<Co> got;
            if constexpr (kind >= 1)
            {
                typename GN::CellArray l;
                static_cast<GN &>(g).neighbors(ec(c), l);
                for (auto *n : l)
                    got.push_back(fromE(n->coord));
            }
            else
            {
                typename GPlain::CellArray l;
                g.neighbors(ec(c), l);
                for (auto *n : l)
                    got.push_back(fromE(n->coord));
            }
            std::sort(got.begin(), got.end());
            if (got != modelNeighbors(o, c))
                fail(K + "neighbors" + after, "neighbors(" + cstr(c) + ") is not exactly the present cells at distance one in one dimension");
            if (cell)
            {
                std::vector<Co> got2;
                typename GPlain::CellArray l;
                static_cast<GPlain &>(g).neighbors(static_cast<const typename GPlain::Cell *>(cell), l);
                for (auto *n : l)
                    got2.push_back(fromE(n->coord));
                std::sort(got2.begin(), got2.end());
                if (got2 != got)
                    fail(K + "neighbors-overloads" + after, "neighbors(cell) and neighbors(coord) disagree");
                // symmetry
                for (auto &nb : got)
                {
                    typename GPlain::CellArray l2;
                    static_cast<GPlain &>(g).neighbors(ec(nb), l2);
                    bool back = false;
                    for (auto *n : l2)
                        if (fromE(n->coord) == c)
                            back = true;
                    if (!back)
                        fail(K + "neighbors-symmetry" + after, cstr(nb) + " is a neighbour of " + cstr(c) + " but not vice versa");
                }
            }
        }
        // contents
        {
            std::vector<int> content;
            g.getContent(content);
            std::vector<int> want;
            for (auto &m : o.model)
                want.push_back(m.second);
            std::sort(content.begin(), content.end());
            std::sort(want.begin(), want.end());
            if (content != want)
                fail(K + "content" + after, "getContent() is not the multiset of stored data");
            std::vector<typename G::Coord *> coords;
            g.getCoordinates(coords);
            std::set<Co> cs;
            for (auto *c : coords)
                cs.insert(fromE(*c));
            if (cs.size() != o.model.size() || coords.size() != o.model.size())
                fail(K + "coordinates" + after, "getCoordinates() is not the set of present coordinates");
            for (auto &c : cs)
                if (!o.model.count(c))
                    fail(K + "coordinates" + after, "getCoordinates() lists an absent coordinate");
        }
        // components
        {
            auto comps = g.components();
            std::set<std::set<Co>> got;
            size_t total = 0;
            bool sorted = true;
            for (size_t i = 0; i < comps.size(); ++i)
            {
                std::set<Co> s;
                for (auto *c : comps[i])
                    s.insert(fromE(c->coord));
                if (s.size() != comps[i].size())
                    fail(K + "components-duplicate" + after, "a component lists a cell twice");
                total += comps[i].size();
                got.insert(s);
                if (i && comps[i].size() > comps[i - 1].size())
                    sorted = false;
            }
            // model components by flood fill
            std::set<std::set<Co>> want;
            std::set<Co> seen;
            for (auto &m : o.model)
            {
                if (seen.count(m.first))
                    continue;
                std::set<Co> comp;
                std::vector<Co> st{m.first};
                while (!st.empty())
                {
                    Co c = st.back();
                    st.pop_back();
                    if (!comp.insert(c).second)
                        continue;
                    seen.insert(c);
                    for (auto &n : modelNeighbors(o, c))
                        st.push_back(n);
                }
                want.insert(comp);
            }
            if (got != want || total != o.model.size())
                fail(K + "components" + after, "components() does not partition the cells by the neighbour relation (" + std::to_string(comps.size()) + " reported, " +
                                                   std::to_string(want.size()) + " expected)");
            if (!sorted)
                fail(K + "components-order" + after, "components() not sorted by decreasing size");
        }
        if constexpr (kind >= 1)
        {
            unsigned limit = cfg.limit > 0 ? cfg.limit : 2 * cfg.dim;
            for (auto &m : o.model)
            {
                auto *c = static_cast<GN &>(g).getCell(ec(m.first));
                if (!c)
                    continue;
                unsigned want = modelNeighbors(o, m.first).size() + boundaryDims(m.first);
                if (c->neighbors != want)
                    fail(K + "neighbor-count" + after, "cell " + cstr(m.first) + " counts " + std::to_string(c->neighbors) + " neighbours, expected " + std::to_string(want));
                else if (c->border != (want < limit))
                    fail(K + "border-flag" + after, "cell " + cstr(m.first) + " with " + std::to_string(want) + " neighbours (limit " + std::to_string(limit) + ") is flagged " +
                                                        (c->border ? "border" : "interior"));
            }
        }
        if constexpr (kind == 2)
        {
            std::map<Co, int> where;  // 1 internal, 2 external, 3 both
            std::map<Co, int> times;
            bool linkOk = true;
            for (auto *e : g.internal_.vector_)
            {
                where[fromE(e->data->coord)] |= 1;
                times[fromE(e->data->coord)]++;
                if (e->data->heapElement != (void *)e)
                    linkOk = false;
            }
            for (auto *e : g.external_.vector_)
            {
                where[fromE(e->data->coord)] |= 2;
                times[fromE(e->data->coord)]++;
                if (e->data->heapElement != (void *)e)
                    linkOk = false;
            }
            if (!linkOk)
                fail(K + "heap-handle" + after, "a cell's heap handle does not point at its own heap element");
            unsigned nint = 0, next = 0;
            bool haveI = false, haveE = false;
            int bestI = 0, bestE = 0;
            for (auto &m : o.model)
            {
                auto *c = g.getCell(ec(m.first));
                if (!c)
                    continue;
                int w = where.count(m.first) ? where[m.first] : 0;
                if (times[m.first] != 1 || w != (c->border ? 2 : 1))
                    fail(K + "queue-membership" + after, "cell " + cstr(m.first) + " (" + (c->border ? "border" : "interior") + ") is in " +
                                                             (w == 0 ? "no queue" : w == 3 ? "both queues" : w == 1 ? "the interior queue" : "the border queue") + " (" +
                                                             std::to_string(times[m.first]) + " entries)");
                if (c->border)
                {
                    ++next;
                    if (!haveE || Traits<G>::lessExt(m.second, bestE))
                        bestE = m.second;
                    haveE = true;
                }
                else
                {
                    ++nint;
                    if (!haveI || Traits<G>::lessInt(m.second, bestI))
                        bestI = m.second;
                    haveI = true;
                }
            }
            if (where.size() != o.model.size())
                fail(K + "queue-stale" + after, "the queues hold " + std::to_string(where.size()) + " distinct cells, grid holds " + std::to_string(o.model.size()));
            if (g.countInternal() != nint || g.countExternal() != next)
                fail(K + "queue-counts" + after, "countInternal/countExternal " + std::to_string(g.countInternal()) + "/" + std::to_string(g.countExternal()) + " expected " +
                                                     std::to_string(nint) + "/" + std::to_string(next));
            double fe = (nint + next) ? (double)next / (nint + next) : 0.0;
            if (fabs(g.fracExternal() - fe) > 1e-12 || fabs(g.fracInternal() - (1 - fe)) > 1e-12)
                fail(K + "frac" + after, "fracExternal/fracInternal wrong");
            if (g.countInternal() > 0 && haveI)
            {
                auto *t = g.topInternal();
                if (!t || t->border || Traits<G>::lessInt(bestI, t->data))
                    fail(K + "top-internal" + after, "topInternal() is not the best interior cell");
            }
            if (g.countExternal() > 0 && haveE)
            {
                auto *t = g.topExternal();
                if (!t || !t->border || Traits<G>::lessExt(bestE, t->data))
                    fail(K + "top-external" + after, "topExternal() is not the best border cell");
            }
        }
        if (vf::asanErrorCount() != a0)
            fail(K + "memory" + after, "AddressSanitizer report during queries");
    }
    bool nontrivial(Obj &o, const std::vector<std::string> &hist)
    {
        char c = hist.empty() ? 'N' : hist.back()[0];
        return o.model.size() >= 2 && (c == 'R' || c == 'U' || c == 'A');
    }
};

static std::vector<Co> box(const Co &lo, const Co &hi)
{
    std::vector<Co> r;
    Co c = lo;
    for (;;)
    {
        r.push_back(c);
        size_t i = 0;
        while (i < c.size() && ++c[i] > hi[i])
        {
            c[i] = lo[i];
            ++i;
        }
        if (i == c.size())
            break;
    }
    return r;
}

// job name: <Grid|GridN|GridBl|GridBm>-<alphabet>-<nb|b>-<l0|lK>
static Config configure(const std::string &job, bool thorough, std::string &cls)
{
    Config c;
    std::vector<std::string> parts;
    std::istringstream is(job);
    std::string t;
    while (std::getline(is, t, '-'))
        parts.push_back(t);
    cls = parts[0];
    const std::string &al = parts[1];
    if (al == "d1")
    {
        c.dim = 1;
        c.coords = box({-1}, {2});
        c.nData = 3;
        c.lo = {0};
        c.hi = {1};
        c.depth = thorough ? 8 : 6;
    }
    else if (al == "d2s")  // 2x3
    {
        c.dim = 2;
        c.coords = box({0, -1}, {1, 1});
        c.nData = 2;
        c.lo = {0, 0};
        c.hi = {1, 1};
        c.depth = thorough ? 7 : 5;
    }
    else if (al == "d2")  // 3x3
    {
        c.dim = 2;
        c.coords = box({-1, -1}, {1, 1});
        c.nData = thorough ? 3 : 2;
        c.lo = {0, 0};
        c.hi = {1, 1};
        c.depth = thorough ? 6 : 5;
    }
    else if (al == "d2h")  // 3x3 filled to >= 7 cells so that heaps get deep: data 2 values, only up to 8 cells
    {
        c.dim = 2;
        c.coords = box({-1, -1}, {1, 1});
        c.nData = 2;
        c.lo = {-1, -1};
        c.hi = {1, 1};
        c.depth = thorough ? 8 : 6;
        c.lean = true;
    }
    else if (al == "d3")
    {
        c.dim = 3;
        c.coords = box({0, 0, 0}, {1, 1, 1});
        c.nData = 2;
        c.lo = {0, 0, 0};
        c.hi = {1, 1, 1};
        c.depth = thorough ? 6 : 4;
    }
    c.bounds = parts[2] == "b";
    c.limit = atoi(parts[3].c_str() + 1);
    c.name = job;
    return c;
}

template <class G>
static void runT(const Config &cfg, const vf::Args &a, vf::Report &r)
{
    Sys<G> s;
    s.cfg = cfg;
    vf::HBFS<Sys<G>> bfs(s, r, a);
    bfs.maxDepth = cfg.depth;
    bfs.replayExtra = "\"job\":" + vf::jesc(cfg.name) + ",\"thorough\":" + (a.thorough() ? "true" : "false");
    bfs.run();
    r.bounds["depth"] = std::to_string(cfg.depth);
    r.bounds["closure"] = bfs.closed ? "true" : "false";
}
template <class G>
static bool replayT(const Config &cfg, const vf::JV &v)
{
    Sys<G> s;
    s.cfg = cfg;
    auto o = s.make();
    std::vector<std::string> hist;
    bool failed = false;
    for (auto &op : v["ops"].a)
    {
        s.apply(*o, op.s);
        hist.push_back(op.s);
        s.check(*o, hist, [&](const std::string &k, const std::string &w) {
            printf("after %zu ops: %s: %s\n", hist.size(), k.c_str(), w.c_str());
            failed = true;
        });
    }
    return failed;
}

int main(int argc, char **argv)
{
    vf::Harness H;
    H.property = "C13";
    H.jobs = [](const vf::Args &a) {
        std::vector<std::string> j;
        for (const char *cls : {"Grid", "GridN", "GridBl", "GridBm"})
        {
            bool plain = std::string(cls) == "Grid";
            std::vector<std::string> alph = {"d1", "d2s", "d2"};
            if (a.thorough())
                alph.push_back("d3");
            for (auto &al : alph)
            {
                int dim = al == "d1" ? 1 : al == "d3" ? 3 : 2;
                if (plain)
                {
                    j.push_back(std::string(cls) + "-" + al + "-nb-l0");
                    continue;
                }
                j.push_back(std::string(cls) + "-" + al + "-nb-l0");
                j.push_back(std::string(cls) + "-" + al + "-b-l0");
                j.push_back(std::string(cls) + "-" + al + "-b-l" + std::to_string(2 * dim - 1));
                if (dim > 1)
                    j.push_back(std::string(cls) + "-" + al + "-nb-l" + std::to_string(2 * dim - 1));
            }
            if (std::string(cls).substr(0, 5) == "GridB")
                j.push_back(std::string(cls) + "-d2h-b-l3");
        }
        return j;
    };
    H.run = [](const std::string &job, const vf::Args &a, vf::Report &r) {
        std::string cls;
        Config cfg = configure(job, a.thorough(), cls);
        if (cls == "Grid")
            runT<GPlain>(cfg, a, r);
        else if (cls == "GridN")
            runT<GN>(cfg, a, r);
        else if (cls == "GridBl")
            runT<GBl>(cfg, a, r);
        else
            runT<GBm>(cfg, a, r);
        r.rule = "BFS over op histories (createCell+add with/without neighbour list, remove+destroyCell, update, silent change+updateAll, clear) on the "
                 "real Grid/GridN/GridB; state = sorted cells with private neighbour counters and border flags + both private heap arrays; every "
                 "state: has/getCell, neighbors (all overloads, every alphabet coordinate, symmetry), components, counters, flags, queue membership, "
                 "tops, counts; non-trivial = distinct states with >=2 cells entered by remove/update/updateAll";
        r.bounds["dimension"] = std::to_string(cfg.dim);
        r.bounds["coordinates"] = std::to_string(cfg.coords.size());
        r.bounds["data_values"] = std::to_string(cfg.nData);
        r.assumptions = {"createCell only for absent coordinates, followed by add or (op c) by remove + destroyCell without add; remove otherwise only for present cells, followed by destroyCell",
                         "topInternal()/topExternal() only when the respective count is non-zero",
                         "GridB without bounds/limit override uses the default limit 2*dimension"};
    };
    H.replay = [](const vf::JV &v) {
        std::string cls;
        Config cfg = configure(v["job"].s, v["thorough"].b, cls);
        if (cls == "Grid")
            return replayT<GPlain>(cfg, v);
        if (cls == "GridN")
            return replayT<GN>(cfg, v);
        if (cls == "GridBl")
            return replayT<GBl>(cfg, v);
        return replayT<GBm>(cfg, v);
    };
    return vf::main(argc, argv, H);
}
