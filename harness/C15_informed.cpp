// C15 — informed sampling. E3 on the prolate hyperspheroid (direction lattice, affinity, determinant, measure) and E1 on
// the direct / rejection samplers (every UNIT x U01 answer of one sampleUniform call).
#include "choice.hpp"
#include "vf.hpp"
#include "asanhook.hpp"
#include <ompl/base/SpaceInformation.h>
#include <ompl/base/ProblemDefinition.h>
#include <ompl/base/goals/GoalStates.h>
#include <ompl/base/objectives/PathLengthOptimizationObjective.h>
#include <ompl/base/samplers/informed/PathLengthDirectInfSampler.h>
#include <ompl/base/samplers/informed/RejectionInfSampler.h>
#include <ompl/base/samplers/informed/OrderedInfSampler.h>
#include <ompl/base/spaces/RealVectorStateSpace.h>
#include <ompl/base/spaces/SE2StateSpace.h>
#include <ompl/base/spaces/SE3StateSpace.h>
#include <ompl/util/ProlateHyperspheroid.h>
#include <ompl/util/GeometricEquations.h>
#include <ompl/util/Console.h>
#include <Eigen/Dense>

namespace ob = ompl::base;
using Vec = std::vector<double>;

static double norm(const Vec &a, const Vec &b)
{
    double s = 0;
    for (size_t i = 0; i < a.size(); ++i)
        s += (a[i] - b[i]) * (a[i] - b[i]);
    return std::sqrt(s);
}
static std::string vstr(const Vec &v)
{
    std::string s = "[";
    for (size_t i = 0; i < v.size(); ++i)
        s += (i ? "," : "") + vf::jnum(v[i]);
    return s + "]";
}
static double unitBall(int n)
{
    return std::pow(M_PI, n / 2.0) / std::tgamma(n / 2.0 + 1);
}

// ---------------- part A: the hyperspheroid itself ----------------
static std::vector<Vec> directions(int n)
{
    std::vector<Vec> d;
    for (int i = 0; i < n; ++i)
        for (double s : {1.0, -1.0})
        {
            Vec v(n, 0.0);
            v[i] = s;
            d.push_back(v);
        }
    Vec diag(n), alt(n), gen(n);
    double g = 0;
    for (int i = 0; i < n; ++i)
    {
        diag[i] = 1 / std::sqrt((double)n);
        alt[i] = ((i % 2) ? -1 : 1) / std::sqrt((double)n);
        gen[i] = std::sqrt(2.0 + i) - 1.2;
        g += gen[i] * gen[i];
    }
    for (auto &x : gen)
        x /= std::sqrt(g);
    d.push_back(diag);
    d.push_back(alt);
    d.push_back(gen);
    return d;
}
struct FociCase
{
    int n;
    Vec f1, f2;
    double factor;
    std::string json() const
    {
        return "{\"part\":\"phs\",\"n\":" + std::to_string(n) + ",\"f1\":" + vstr(f1) + ",\"f2\":" + vstr(f2) + ",\"factor\":" + vf::jnum(factor) + "}";
    }
};
static void checkPhs(const FociCase &c, const std::function<void(const std::string &, const std::string &)> &fail, vf::Report *rep)
{
    int n = c.n;
    double d = norm(c.f1, c.f2), C = d * c.factor;
    auto phs = std::make_shared<ompl::ProlateHyperspheroid>(n, c.f1.data(), c.f2.data());
    phs->setTransverseDiameter(C);
    double tol = 1e-9 * (1 + C);
    // measure against the closed form
    double conj = d * std::sqrt((c.factor - 1) * (c.factor + 1));  // sqrt(C^2 - d^2) without the cancellation
    double want = unitBall(n) * (C / 2) * std::pow(conj / 2, n - 1);
    double got = phs->getPhsMeasure();
    // near the degenerate limit c -> d the conjugate diameter sqrt(c^2 - d^2) is ill-conditioned in the INPUT c itself (c is a
    // rounded double): relative uncertainty ~ eps / (factor - 1) per factor of the conjugate diameter
    double rel = 1e-9 + 40.0 * n * 1.2e-16 / (c.factor - 1);
    if (std::fabs(got - want) > rel * (1e-300 + std::fabs(want)) + 1e-300)
        fail("C15|phs|measure", "getPhsMeasure() = " + vf::jnum(got) + " but the analytic volume is " + vf::jnum(want));
    if (std::fabs(phs->getPhsMeasure(C * 1.7) - unitBall(n) * (C * 1.7 / 2) * std::pow(std::sqrt(C * C * 2.89 - d * d) / 2, n - 1)) > 1e-9 * unitBall(n) * (C * 1.7 / 2) * std::pow(std::sqrt(C * C * 2.89 - d * d) / 2, n - 1))
        fail("C15|phs|measure-for-diameter", "getPhsMeasure(diameter) differs from the analytic volume");
    if (std::fabs(phs->getMinTransverseDiameter() - d) > 1e-12 * (1 + d))
        fail("C15|phs|min-diameter", "getMinTransverseDiameter() is not the focal distance");
    // affine map: T(x) = A x + b ; columns of A from the basis, additivity on the lattice, determinant = product of semi-axes
    Vec zero(n, 0.0), t0(n);
    phs->transform(zero.data(), t0.data());
    Eigen::MatrixXd A(n, n);
    for (int i = 0; i < n; ++i)
    {
        Vec e(n, 0.0), te(n);
        e[i] = 1;
        phs->transform(e.data(), te.data());
        for (int k = 0; k < n; ++k)
            A(k, i) = te[k] - t0[k];
    }
    auto dirs = directions(n);
    for (auto &x : dirs)
        for (double sc : {1.0, 0.5, -0.25})
        {
            Vec sx(n), tx(n);
            for (int i = 0; i < n; ++i)
                sx[i] = sc * x[i];
            phs->transform(sx.data(), tx.data());
            for (int k = 0; k < n; ++k)
            {
                double lin = t0[k];
                for (int i = 0; i < n; ++i)
                    lin += A(k, i) * sx[i];
                if (std::fabs(lin - tx[k]) > 1e-9 * (1 + C + std::fabs(t0[k])))
                {
                    fail("C15|phs|transform-not-affine", "transform() is not affine on the direction lattice");
                    goto affDone;
                }
            }
        }
affDone:
    {
        double det = std::fabs(A.determinant()), wdet = (C / 2) * std::pow(conj / 2, n - 1);
        if (std::fabs(det - wdet) > (rel + 1e-7) * (1e-300 + wdet) + 1e-12 * std::pow(C, n))  // (+1e-7: the columns are differences of transformed points)
            fail("C15|phs|determinant", "|det| of the transform is " + vf::jnum(det) + " but the product of the semi-axes is " + vf::jnum(wdet));
        // centre = midpoint of the foci
        for (int k = 0; k < n; ++k)
            if (std::fabs(t0[k] - 0.5 * (c.f1[k] + c.f2[k])) > 1e-9 * (1 + std::fabs(t0[k])))
            {
                fail("C15|phs|centre", "the image of the origin is not the midpoint of the foci");
                break;
            }
    }
    // surface: every direction of the lattice (through the real RNG entry point, answered by the oracle) has focal sum C
    for (size_t di = 0; di < dirs.size(); ++di)
    {
        struct DirOracle : vc::Oracle
        {
            Vec dir;
            bool unitVector(ompl::RNG *, std::vector<double> &v) override
            {
                take(vc::UNIT, 1);
                v = dir;
                return true;
            }
        } o;
        o.dir = dirs[di];
        vc::Install inst(o);
        ompl::RNG rng;
        Vec p(n);
        rng.uniformProlateHyperspheroidSurface(phs, p.data());
        double sum = norm(p, c.f1) + norm(p, c.f2);
        if (rep)
            rep->transitions++;
        if (std::fabs(sum - C) > 1e-9 * (1 + C) + 4e-16 * (std::fabs(c.f1[0]) + C) * 8)
            fail("C15|phs|surface-focal-sum", "unit direction " + vstr(dirs[di]) + " maps to a point whose focal distances sum to " + vf::jnum(sum) + " instead of " + vf::jnum(C));
        if (std::fabs(phs->getPathLength(p.data()) - sum) > tol)
            fail("C15|phs|getPathLength", "getPathLength() disagrees with the focal distances");
        // interior: radius below one is inside, slightly above one is outside
        for (double r : {0.0, 0.5, 1.0 - 1e-6})
        {
            Vec s(n), q(n);
            for (int i = 0; i < n; ++i)
                s[i] = r * dirs[di][i];
            phs->transform(s.data(), q.data());
            if (norm(q, c.f1) + norm(q, c.f2) > C + tol)
                fail("C15|phs|interior-maps-outside", "a point of the unit ball (radius " + vf::jnum(r) + ") maps outside the spheroid");
            else if (!phs->isInPhs(q.data()) && norm(q, c.f1) + norm(q, c.f2) < C - tol)
                fail("C15|phs|isInPhs", "isInPhs() rejects an interior point");
        }
        if (c.factor > 1 + 1e-6)
        {
            Vec s(n), q(n);
            for (int i = 0; i < n; ++i)
                s[i] = (1.0 + 1e-4) * dirs[di][i];
            phs->transform(s.data(), q.data());
            if (phs->isInPhs(q.data()) && norm(q, c.f1) + norm(q, c.f2) > C + tol)
                fail("C15|phs|isInPhs", "isInPhs() accepts an exterior point");
        }
    }
}
static std::vector<FociCase> fociCases(bool thorough)
{
    std::vector<FociCase> v;
    for (int n = 2; n <= (thorough ? 6 : 5); ++n)
        for (double sep : {1e-6, 0.5, 3.0, 10.0})
            for (int orient = 0; orient < 3; ++orient)
                for (double factor : {1 + 1e-9, 1.01, 1.5, 4.0, 100.0})
                {
                    Vec f1(n, 0.0), f2(n, 0.0);
                    if (orient == 0)
                        f2[0] = sep;  // axis aligned
                    else if (orient == 1)
                        for (int i = 0; i < n; ++i)  // diagonal, off the origin
                        {
                            f1[i] = -1.3 + 0.1 * i;
                            f2[i] = f1[i] + sep / std::sqrt((double)n);
                        }
                    else
                    {
                        f1[n - 1] = 2.5;  // along the last axis, reversed
                        f2[n - 1] = 2.5 - sep;
                        f1[0] = f2[0] = 7;
                    }
                    v.push_back({n, f1, f2, factor});
                }
    return v;
}

// ---------------- part B: the samplers ----------------
struct SCfg
{
    std::string space = "R2", sampler = "direct";
    int starts = 1, goals = 1;
    double factor = 1.5;  // cost bound = factor * smallest start-goal distance
    bool twoSided = false;
    std::string json() const
    {
        return "\"part\":\"sampler\",\"space\":" + vf::jesc(space) + ",\"sampler\":" + vf::jesc(sampler) + ",\"starts\":" + std::to_string(starts) + ",\"goals\":" + std::to_string(goals) + ",\"factor\":" + vf::jnum(factor) +
               ",\"twoSided\":" + (twoSided ? "true" : "false");
    }
};
struct SProblem
{
    ob::StateSpacePtr space;
    ob::SpaceInformationPtr si;
    ob::ProblemDefinitionPtr pdef;
    std::vector<Vec> S, G;
    int n;
    double dmin = 1e300;
    Vec pos(const ob::State *s) const
    {
        Vec v(n);
        const double *p = space->getType() == ob::STATE_SPACE_REAL_VECTOR ? s->as<ob::RealVectorStateSpace::StateType>()->values : s->as<ob::CompoundState>()->components[0]->as<ob::RealVectorStateSpace::StateType>()->values;
        for (int i = 0; i < n; ++i)
            v[i] = p[i];
        return v;
    }
    void setPos(ob::State *s, const Vec &v) const
    {
        double *p = space->getType() == ob::STATE_SPACE_REAL_VECTOR ? s->as<ob::RealVectorStateSpace::StateType>()->values : s->as<ob::CompoundState>()->components[0]->as<ob::RealVectorStateSpace::StateType>()->values;
        for (int i = 0; i < n; ++i)
            p[i] = v[i];
        if (space->getType() == ob::STATE_SPACE_SE2)
            s->as<ob::SE2StateSpace::StateType>()->setYaw(0.3);
        else if (space->getType() == ob::STATE_SPACE_SE3)
            s->as<ob::SE3StateSpace::StateType>()->rotation().setIdentity();
    }
    SProblem(const SCfg &c)
    {
        ob::RealVectorBounds b(2);
        if (c.space == "R2" || c.space == "SE2")
            n = 2;
        else if (c.space == "R4")
            n = 4;
        else
            n = 3;
        b = ob::RealVectorBounds(n);
        b.setLow(-2);
        b.setHigh(3);
        if (c.space == "SE2")
        {
            auto s = std::make_shared<ob::SE2StateSpace>();
            s->setBounds(b);
            space = s;
        }
        else if (c.space == "SE3")
        {
            auto s = std::make_shared<ob::SE3StateSpace>();
            s->setBounds(b);
            space = s;
        }
        else
        {
            auto s = std::make_shared<ob::RealVectorStateSpace>(n);
            s->setBounds(b);
            space = s;
        }
        si = std::make_shared<ob::SpaceInformation>(space);
        si->setStateValidityChecker([](const ob::State *) { return true; });
        si->setup();
        pdef = std::make_shared<ob::ProblemDefinition>(si);
        for (int i = 0; i < c.starts; ++i)
        {
            Vec v(n, -1.0 + 0.4 * i);
            v[0] = -1.5 + 0.9 * i;
            S.push_back(v);
            ob::ScopedState<> st(space);
            setPos(st.get(), v);
            pdef->addStartState(st);
        }
        auto gs = std::make_shared<ob::GoalStates>(si);
        for (int i = 0; i < c.goals; ++i)
        {
            Vec v(n, 1.0 - 0.7 * i);
            v[0] = 2.0 - 0.3 * i;
            G.push_back(v);
            ob::ScopedState<> st(space);
            setPos(st.get(), v);
            gs->addState(st);
        }
        pdef->setGoal(gs);
        pdef->setOptimizationObjective(std::make_shared<ob::PathLengthOptimizationObjective>(si));
        for (auto &s : S)
            for (auto &g : G)
                dmin = std::min(dmin, norm(s, g));
    }
    double heuristic(const Vec &x) const
    {
        double best = 1e300;
        for (auto &s : S)
            for (auto &g : G)
                best = std::min(best, norm(s, x) + norm(x, g));
        return best;
    }
};

static std::vector<vc::Point> runSampler(const SCfg &c, const std::map<size_t, int> &dev, const std::function<void(const std::string &, const std::string &)> &fail, uint64_t *obs = nullptr)
{
    SProblem P(c);
    vc::Oracle o;
    o.dev = dev;
    o.horizon = c.sampler == "ordered" ? 600000 : 20000;  // ordered: up to 100 batches of 3 inner calls of up to 100 iterations each
    // thresholds of the 1/K rule for K = 2 and 3
    for (double k : {2.0, 3.0})
    {
        o.ua.push_back(1.0 / k);
        o.ua.push_back(nextafter(1.0 / k, 0.0));
        o.ua.push_back(nextafter(1.0 / k, 1.0));
    }
    vc::Install inst(o);
    std::shared_ptr<ob::InformedSampler> smp;
    if (c.sampler == "direct")
        smp = std::make_shared<ob::PathLengthDirectInfSampler>(P.pdef, 100);
    else if (c.sampler == "ordered")
        smp = std::make_shared<ob::OrderedInfSampler>(std::make_shared<ob::PathLengthDirectInfSampler>(P.pdef, 100), 3);
    else
        smp = std::make_shared<ob::RejectionInfSampler>(P.pdef, 100);
    double C = c.factor * P.dmin, Cmin = 0.5 * (P.dmin + C);
    ob::State *s = P.space->allocState();
    bool ok = false;
    try
    {
        if (c.sampler == "ordered")
        {
            // the ordered sampler hands out a batch of 3 in order of heuristic cost; the bound shrinks between the calls (as it does in
            // a planner that keeps finding better solutions), so kept samples have to be re-examined: every call is checked against ITS bound
            for (int call = 0; call < 4; ++call)
            {
                double Ck = P.dmin + (C - P.dmin) * (1.0 - 0.2 * call);
                C = Ck;  // bounds only shrink (the samplers drop spheroids that cannot help any more): everything after this call refers to Ck
                ok = smp->sampleUniform(s, ob::Cost(Ck));
                if (!ok)
                    break;
                if (!P.space->satisfiesBounds(s))
                    fail("C15|ordered|out-of-bounds", "successful ordered-informed sample (call " + std::to_string(call) + ") violates the space bounds");
                double hk = P.heuristic(P.pos(s));  // the focal sum of the wrapped direct sampler (independent computation)
                if (!(hk < Ck * (1 + 1e-9)))
                    fail("C15|ordered|cost-not-below-bound", "call " + std::to_string(call) + ": heuristic solution cost " + vf::jnum(hk) + " >= the bound " + vf::jnum(Ck) + " of that call");
            }
        }
        else
            ok = c.twoSided ? smp->sampleUniform(s, ob::Cost(Cmin), ob::Cost(C)) : smp->sampleUniform(s, ob::Cost(C));
    }
    catch (vc::Horizon &)
    {
        fail("C15|" + c.sampler + "|draw-horizon", "more than " + std::to_string(o.horizon) + " draws in one sampleUniform call limited to 100 iterations");
        P.space->freeState(s);
        return o.trace;
    }
    const std::string K = "C15|" + c.sampler + "|";
    if (ok)
    {
        if (!P.space->satisfiesBounds(s))
            fail(K + "out-of-bounds", "successful informed sample violates the space bounds");
        Vec x = P.pos(s);
        double h = P.heuristic(x), hl = smp->heuristicSolnCost(s).value();
        if (c.sampler == "rejection")
        {
            // the rejection sampler's heuristic is the objective's own: straight-line cost in the FULL state space
            h = 1e300;
            for (unsigned i = 0; i < P.pdef->getStartStateCount(); ++i)
                for (std::size_t g = 0; g < P.pdef->getGoal()->as<ob::GoalStates>()->getStateCount(); ++g)
                    h = std::min(h, P.si->distance(P.pdef->getStartState(i), s) + P.si->distance(s, P.pdef->getGoal()->as<ob::GoalStates>()->getState(g)));
        }
        if (c.sampler != "ordered" && std::fabs(h - hl) > 1e-9 * (1 + h))  // (the ordered wrapper does not forward heuristicSolnCost)
            fail(K + "heuristic-value", "heuristicSolnCost() = " + vf::jnum(hl) + " but min over start/goal pairs of the focal sum is " + vf::jnum(h));
        if (!(h < C * (1 + 1e-9)))
            fail(K + "cost-not-below-bound", "successful sample has heuristic solution cost " + vf::jnum(h) + " >= the bound " + vf::jnum(C));
        if (c.twoSided && h < Cmin * (1 - 1e-9))
            fail(K + "cost-below-lower-bound", "successful sample has heuristic solution cost " + vf::jnum(h) + " below the lower bound " + vf::jnum(Cmin));
    }
    // measure: min(space measure, sum of spheroid measures x measure of the uninformed part)
    if (smp->hasInformedMeasure())
    {
        double sum = 0;
        for (auto &st : P.S)
            for (auto &g : P.G)
            {
                double d = norm(st, g);
                if (C > d)
                    sum += unitBall(P.n) * (C / 2) * std::pow(std::sqrt(C * C - d * d) / 2, P.n - 1);
            }
        if (c.space == "SE2")
            sum *= 2 * M_PI;
        else if (c.space == "SE3")
            sum *= P.space->as<ob::SE3StateSpace>()->getSubspace(1)->getMeasure();
        double want = std::min(P.space->getMeasure(), sum), got = smp->getInformedMeasure(ob::Cost(C));
        if (std::fabs(got - want) > 1e-9 * (1 + want))
            fail(K + "informed-measure", "getInformedMeasure() = " + vf::jnum(got) + " but the analytic value is " + vf::jnum(want));
    }
    if (obs)
    {
        vf::Hash h;
        h.add(ok);
        if (ok)
            for (double d : P.pos(s))
                h.addd(d);
        *obs = h.h;
    }
    P.space->freeState(s);
    return o.trace;
}

// the 1/K rule decided exactly: a candidate inside K spheroids is kept iff the uniform answer is <= 1/K
static void runKeepRule(vf::Report &rep)
{
    for (int goals = 2; goals <= 3; ++goals)
    {
        SCfg c;
        c.space = "R2";
        c.goals = goals;
        c.factor = 3.0;
        SProblem P(c);
        double C = c.factor * P.dmin;
        // candidates: midpoint of start and first goal (inside all spheroids for this factor), a point far towards goal 0 only
        std::vector<Vec> cands = {{0.25, 0.0}, {0.0, 0.0}, {2.9, 2.9}, {-1.9, 2.9}};
        for (auto &x : cands)
        {
            int Kin = 0;
            for (auto &g : P.G)
                if (norm(P.S[0], x) + norm(x, g) < C)
                    ++Kin;
            if (Kin == 0)
                continue;
            for (double u : {nextafter(1.0 / Kin, 0.0), 1.0 / Kin, nextafter(1.0 / Kin, 1.0), 0.0, 1.0 - 1e-16})
            {
                struct U : vc::Oracle
                {
                    double val;
                    double u01(ompl::RNG *) override
                    {
                        take(vc::U01, 1);
                        return val;
                    }
                } o;
                o.val = u;
                vc::Install inst(o);
                ob::PathLengthDirectInfSampler smp(P.pdef, 100);
                smp.updatePhsDefinitions(ob::Cost(C));
                bool keep = smp.keepSample(x);
                bool want = u <= 1.0 / Kin;
                rep.evaluations++;
                rep.transitions++;
                vf::Hash h;
                h.add(goals);
                h.addd(x[0]);
                h.addd(u);
                rep.nontrivial.insert(h.h);
                rep.outcomes.insert(keep + 2 * Kin);
                if (keep != want)
                    rep.fail("C15|direct|one-over-K-rule", "candidate " + vstr(x) + " inside " + std::to_string(Kin) + " spheroids with uniform answer " + vf::jnum(u) + " was " + (keep ? "kept" : "rejected"),
                             "{\"part\":\"keep\",\"goals\":" + std::to_string(goals) + "}");
            }
        }
    }
    rep.states += 2;
    rep.sample("{\"part\":\"keep\",\"goals\":2}");
}

// the "all of" half in the bounds-rejection branch (large cost bound, several start/goal pairs): a candidate of the underlying uniform
// sampler that lies inside ANY spheroid (by the harness's own focal sums) must be returned at once, one that lies in none must not.
// The candidate is scripted through the uniform answers: RealVectorStateSampler draws one U01 per coordinate.
static void runAcceptRule(vf::Report &rep)
{
    for (int dim = 2; dim <= 3; ++dim)
        for (int order = 0; order < 2; ++order)
        {
            auto space = std::make_shared<ob::RealVectorStateSpace>(dim);
            ob::RealVectorBounds b(dim);
            b.setLow(-1);
            b.setHigh(1);
            b.setLow(0, -10);
            b.setHigh(0, 10);
            space->setBounds(b);
            auto si = std::make_shared<ob::SpaceInformation>(space);
            si->setStateValidityChecker([](const ob::State *) { return true; });
            si->setup();
            auto pdef = std::make_shared<ob::ProblemDefinition>(si);
            Vec S(dim, 0.0), GA(dim, 0.0), GB(dim, 0.0);
            S[0] = -9;
            GA[0] = 9;
            GB[0] = -8;
            auto put = [&](ob::State *st, const Vec &v) {
                for (int i = 0; i < dim; ++i)
                    st->as<ob::RealVectorStateSpace::StateType>()->values[i] = v[i];
            };
            ob::ScopedState<> st(space);
            put(st.get(), S);
            pdef->addStartState(st);
            auto gs = std::make_shared<ob::GoalStates>(si);
            for (const Vec *g : {order ? &GB : &GA, order ? &GA : &GB})
            {
                put(st.get(), *g);
                gs->addState(st);
            }
            pdef->setGoal(gs);
            pdef->setOptimizationObjective(std::make_shared<ob::PathLengthOptimizationObjective>(si));
            const double C = 19.0;
            std::vector<double> xs = {-9.9, -9.7, -9.0, -5.0, 0.0, 2.5, 5.0, 9.0, 9.4, 9.9}, ys = {-0.9, 0.0, 0.9};
            for (double x : xs)
                for (double y : ys)
                    for (double z : (dim == 3 ? std::vector<double>{0.0, 0.9} : std::vector<double>{0.0}))
                    {
                        Vec cand(dim, 0.0);
                        cand[0] = x;
                        cand[1] = y;
                        if (dim == 3)
                            cand[2] = z;
                        double fa = norm(S, cand) + norm(cand, GA), fb = norm(S, cand) + norm(cand, GB);
                        if (std::fabs(fa - C) < 1e-6 || std::fabs(fb - C) < 1e-6)
                            continue;  // on a surface: rounding decides
                        int Kin = (fa < C) + (fb < C);
                        struct Script : vc::Oracle
                        {
                            std::vector<double> first;
                            size_t k = 0;
                            double u01(ompl::RNG *r) override
                            {
                                if (k < first.size())
                                {
                                    take(vc::U01, 1);
                                    return first[k++];
                                }
                                return vc::Oracle::u01(r);
                            }
                        } o;
                        for (int i = 0; i < dim; ++i)
                            o.first.push_back((cand[i] - b.low[i]) / (b.high[i] - b.low[i]));
                        vc::Install inst(o);
                        ob::PathLengthDirectInfSampler smp(pdef, 100);
                        ob::State *out = space->allocState();
                        bool ok = smp.sampleUniform(out, ob::Cost(C));
                        Vec got(dim);
                        for (int i = 0; i < dim; ++i)
                            got[i] = out->as<ob::RealVectorStateSpace::StateType>()->values[i];
                        space->freeState(out);
                        bool same = ok && norm(got, cand) < 1e-9;
                        rep.evaluations++;
                        rep.transitions++;
                        vf::Hash h;
                        h.add(dim);
                        h.add(order);
                        h.addd(x);
                        h.addd(y);
                        h.addd(z);
                        rep.nontrivial.insert(h.h);
                        rep.outcomes.insert((uint64_t)(same + 2 * Kin + 8 * (fa < C)));
                        std::string rj = "{\"part\":\"accept\"}";
                        if (Kin > 0 && !same)
                            rep.fail("C15|direct|accept-rule", "uniform candidate " + vstr(cand) + " lies inside " + std::to_string(Kin) + " of the 2 spheroids (focal sums " + vf::jnum(fa) + ", " + vf::jnum(fb) + " < " +
                                                                   vf::jnum(C) + ", goal order " + std::to_string(order) + ") but the sampler " + (ok ? "returned " + vstr(got) : "failed"), rj);
                        if (Kin == 0 && same)
                            rep.fail("C15|direct|accept-rule-outside", "uniform candidate " + vstr(cand) + " lies outside every spheroid but was returned", rj);
                    }
            rep.states++;
        }
    rep.sample("{\"part\":\"accept\"}");
}

int main(int argc, char **argv)
{
    ompl::msg::setLogLevel(ompl::msg::LOG_NONE);
    vf::Harness H;
    H.property = "C15";
    H.jobs = [](const vf::Args &a) {
        std::vector<std::string> j{"phs", "keep", "accept"};
        for (const char *sp : {"R2", "R3", "R4", "SE2", "SE3"})
            for (const char *sm : {"direct", "rejection", "ordered"})
                for (const char *sg : {"1x1", "1x2", "2x2"})
                    j.push_back(std::string(sp) + "-" + sm + "-" + sg);
        return j;
    };
    H.run = [](const std::string &job, const vf::Args &a, vf::Report &rep) {
        if (job == "phs")
        {
            for (auto &c : fociCases(a.thorough()))
            {
                checkPhs(c, [&](const std::string &k, const std::string &w) { rep.fail(k, w, c.json()); }, &rep);
                rep.evaluations++;
                rep.states++;
                vf::Hash h;
                h.adds(c.json());
                rep.nontrivial.insert(h.h);
                rep.outcomes.insert(h.h % 1009);
                if (rep.samples.size() < 2 && (rep.evaluations % 97) == 0)
                    rep.sample(c.json());
            }
        }
        else if (job == "keep")
            runKeepRule(rep);
        else if (job == "accept")
            runAcceptRule(rep);
        else
        {
            SCfg c;
            c.space = job.substr(0, job.find('-'));
            std::string rest = job.substr(job.find('-') + 1);
            c.sampler = rest.substr(0, rest.find('-'));
            std::string sg = rest.substr(rest.find('-') + 1);
            c.starts = sg[0] - '0';
            c.goals = sg[2] - '0';
            for (double factor : {1 + 1e-9, 1.01, 1.5, 4.0, 100.0})
                for (int two = 0; two < 2; ++two)
                {
                    if (two && c.sampler == "rejection" && factor > 50)
                        continue;
                    if (two && c.sampler == "ordered")
                        continue;  // the two-sided overload of the ordered sampler is documented as not implemented (throws)
                    c.factor = factor;
                    c.twoSided = two;
                    auto run = [&](const std::map<size_t, int> &dev) {
                        std::string cj = "{" + c.json() + ",\"dev\":" + vc::devJson(dev) + "}";
                        uint64_t obs = 0;
                        auto tr = runSampler(c, dev, [&](const std::string &k, const std::string &w) { rep.fail(k, w, cj); }, &obs);
                        rep.evaluations++;
                        rep.transitions++;
                        rep.outcomes.insert(obs);
                        vf::Hash h;
                        h.adds(cj);
                        if (!dev.empty())
                            rep.nontrivial.insert(h.h);
                        if (rep.samples.size() < 2 && dev.size() == 2 && (rep.evaluations % 307) == 0)
                            rep.sample(cj);
                        rep.metrics["max_draws"] = std::max<double>(rep.metrics["max_draws"], tr.size());
                        return tr;
                    };
                    vc::Product prod;
                    prod.depth = a.thorough() ? 4 : 3;
                    prod.expired = [&] { return a.expired(); };
                    prod.explore(run);
                    vc::DBE dbe;
                    dbe.D = 2;
                    dbe.N = a.thorough() ? 14 : 10;
                    dbe.expired = [&] { return a.expired(); };
                    dbe.explore(run);
                    if (prod.cut || dbe.cut)
                        rep.exhaustive = false;
                    rep.states++;
                }
        }
        rep.rule = "hyperspheroid: dimensions 2..5(6) x focal separations {1e-6,.5,3,10} x 3 orientations x cost factors {1+1e-9,1.01,1.5,4,100}: every lattice direction (+-e_i, diagonals, generic) "
                   "through RNG::uniformProlateHyperspheroidSurface has focal sum c; transform affine with |det| = product of semi-axes; measures = closed form; interior/exterior membership. "
                   "Samplers: {R2,R3,R4,SE2,SE3} x {direct,rejection} x starts/goals {1x1,1x2,2x2} x cost factors x one- and two-sided calls: full product of oracle answers (U01 incl. 0, 1-2^-53, "
                   "1/K and its ulp neighbours; unit directions) over the first draws + all <= 2 deviations; the 1/K keep rule decided exactly; non-trivial = non-default answer streams";
        rep.assumptions = {"the radius u^(1/n) rounds to 1 for u = 1-2^-53: the bound is checked as < c(1+1e-9)", "uniformity itself is established through affinity + determinant + measure; the empirical distribution is statistical and not decided",
                           "start/goal pairs separated by more than 1e-9"};
    };
    H.replay = [](const vf::JV &v) {
        bool failed = false;
        auto fail = [&](const std::string &k, const std::string &w) {
            printf("%s: %s\n", k.c_str(), w.c_str());
            failed = true;
        };
        std::string part = v["part"].s;
        if (part == "phs")
        {
            FociCase c{(int)v["n"].i(), {}, {}, v["factor"].d()};
            for (auto &x : v["f1"].a)
                c.f1.push_back(x.d());
            for (auto &x : v["f2"].a)
                c.f2.push_back(x.d());
            checkPhs(c, fail, nullptr);
        }
        else if (part == "keep" || part == "accept")
        {
            vf::Report r;
            if (part == "keep")
                runKeepRule(r);
            else
                runAcceptRule(r);
            for (auto &f : r.failures)
                fail(f.key, f.what);
        }
        else
        {
            SCfg c;
            c.space = v["space"].s;
            c.sampler = v["sampler"].s;
            c.starts = v["starts"].i();
            c.goals = v["goals"].i();
            c.factor = v["factor"].d();
            c.twoSided = v["twoSided"].b;
            std::map<size_t, int> dev;
            for (auto &d : v["dev"].a)
                dev[(size_t)d[0].i()] = (int)d[1].i();
            runSampler(c, dev, fail);
        }
        return failed;
    };
    return vf::main(argc, argv, H);
}
