// C10 — nearest-neighbour structures: E2 history BFS on the real GNAT / GNATNoThreadSafety / Linear / SqrtApprox,
// canonical state = full private tree; in every state all queries are compared with brute force.
#include <ompl/datastructures/NearestNeighborsGNAT.h>
#include <ompl/datastructures/NearestNeighborsGNATNoThreadSafety.h>
#include <ompl/datastructures/NearestNeighborsLinear.h>
#include <ompl/datastructures/NearestNeighborsSqrtApprox.h>
#include <ompl/util/RandomNumbers.h>
#include "hbfs.hpp"
#include "asanhook.hpp"
#include <algorithm>

struct El
{
    int id = -1;
    double x = 0, y = 0;
    bool operator==(const El &o) const
    {
        return id == o.id;
    }
    bool operator!=(const El &o) const
    {
        return id != o.id;
    }
};
static std::ostream &operator<<(std::ostream &o, const El &e)
{
    return o << e.id;
}

// ---- oracle for the k-centers first pivot (hook H1) and the child permutation of GNATNoThreadSafety (hook H2) ----
static int g_pivotMode = 0;  // 0 first, 1 last, 2 middle
static int g_permMode = 0;   // index of the permutation pattern
static long g_pivotDraws = 0;
struct PivotOracle : ompl::verif::RNGOracle
{
    double u01(ompl::RNG *) override
    {
        ++g_pivotDraws;
        return g_pivotMode == 0 ? 0.0 : g_pivotMode == 1 ? 1.0 - ldexp(1.0, -53) : 0.5;
    }
    double n01(ompl::RNG *) override
    {
        return 0;
    }
    bool unitVector(ompl::RNG *, std::vector<double> &) override
    {
        return false;
    }
    int pick(ompl::RNG *, int n) override
    {
        return n - 1;
    }
};
static PivotOracle g_oracle;
static int permPick(int k)
{
    // Fisher-Yates pick for position k-1 out of [0,k): pattern 0 = identity, 1 = always 0 (rotation-like),
    // 2 = alternate, 3.. = mixed radix digits of the mode
    switch (g_permMode)
    {
        case 0: return k - 1;
        case 1: return 0;
        case 2: return (k - 1) / 2;
        case 3: return k >= 2 ? k - 2 : 0;
        case 4: return k == 3 ? 0 : k - 1;
        default: return k == 3 ? 2 : 0;
    }
}

struct Metric
{
    std::string name;
    std::vector<std::pair<double, double>> pts;   // element alphabet
    std::vector<std::pair<double, double>> extraQ;  // extra query points
    bool euclid = false;
    std::vector<double> radii;
};
static Metric metric(const std::string &m, bool thorough)
{
    Metric M;
    M.name = m;
    if (m == "l1d1")
    {
        for (int i = 0; i < 4; ++i)
            M.pts.push_back({(double)i, 0});
        M.extraQ = {{-1, 0}, {1.5, 0}};
        M.radii = {0, 1, 2, 1e300};
    }
    else if (m == "l1d2")
    {
        for (int i = 0; i < 3; ++i)
            for (int j = 0; j < (thorough ? 3 : 2); ++j)
                M.pts.push_back({(double)i, (double)j});
        M.extraQ = {{0.5, 0.5}, {3, 3}};
        M.radii = {0, 1, 2, 1e300};
    }
    else  // clusters
    {
        M.euclid = true;
        M.pts = {{0, 0}, {0.125, 0}, {0, 0.125}, {10, 10}, {10.125, 10}, {-5, 7}};
        M.extraQ = {{5, 5}, {0.0625, 0.0625}};
        M.radii = {0, 0.125, 0.2, 15, 1e300};
    }
    return M;
}
static double dist(const Metric &M, const El &a, const El &b)
{
    if (M.euclid)
        return std::sqrt((a.x - b.x) * (a.x - b.x) + (a.y - b.y) * (a.y - b.y));
    return std::fabs(a.x - b.x) + std::fabs(a.y - b.y);
}

using GNAT = ompl::NearestNeighborsGNAT<El>;
using GNATN = ompl::NearestNeighborsGNATNoThreadSafety<El>;
using LIN = ompl::NearestNeighborsLinear<El>;
using SQRT = ompl::NearestNeighborsSqrtApprox<El>;

struct Config
{
    std::string job, cls, metricName;
    int leaf = 2, cache = 2;
    bool rebal = false;
    int cap = 6, depth = 6, pivotModes = 2, permModes = 3;
    bool thorough = false;
};

template <class NN>
struct Canon;
// elements are dumped as "<x>,<y>#<rank>": rank = order of first appearance among the elements at the same point, so two
// histories that differ only in how ids were numbered reach the same canonical state
struct Relabel
{
    std::map<std::pair<double, double>, std::vector<int>> seen;
    std::string operator()(const El &e)
    {
        auto &v = seen[{e.x, e.y}];
        size_t r = std::find(v.begin(), v.end(), e.id) - v.begin();
        if (r == v.size())
            v.push_back(e.id);
        char b[64];
        snprintf(b, sizeof b, "%g,%g#%zu", e.x, e.y, r);
        return b;
    }
};
template <class G>
static void dumpNode(const typename G::Node *n, std::string &s, Relabel &rl)
{
    char b[64];
    s += "(d" + std::to_string(n->degree_) + " p" + rl(n->pivot_);
    snprintf(b, sizeof b, " r[%g,%g]", n->minRadius_, n->maxRadius_);
    s += b;
    s += " R[";
    for (size_t i = 0; i < n->minRange_.size(); ++i)
    {
        snprintf(b, sizeof b, "%g:%g,", n->minRange_[i], n->maxRange_[i]);
        s += b;
    }
    s += "] D[";
    for (auto &d : n->data_)
        s += rl(d) + ";";
    s += "]";
    for (auto *c : n->children_)
        dumpNode<G>(c, s, rl);
    s += ")";
}
template <class G>
static std::string gnatCanon(G &g)
{
    std::string s;
    Relabel rl;
    if (g.tree_)
        dumpNode<G>(g.tree_, s, rl);
    std::vector<std::string> rem;
    for (auto *p : g.removed_)
        rem.push_back(rl(*p));
    std::sort(rem.begin(), rem.end());
    s += " rem[";
    for (auto &r : rem)
        s += r + ";";
    s += "] n" + std::to_string(g.size_) + " rb" + std::to_string(g.rebuildSize_ == std::numeric_limits<std::size_t>::max() ? -1 : (long)g.rebuildSize_);
    return s;
}
template <>
struct Canon<GNAT>
{
    static std::string get(GNAT &g)
    {
        return gnatCanon(g) + " o" + std::to_string(g.offset_ % 6);
    }
};
template <>
struct Canon<GNATN>
{
    static std::string get(GNATN &g)
    {
        // the non-thread-safe variant keeps its result heap and node queue as MEMBERS (scratch that must be empty between operations):
        // they feed the next query, so they are part of the state (two histories that differ there do not have the same futures)
        std::string s = gnatCanon(g);
        Relabel rl;
        if (g.tree_)
        {
            std::string dummy;
            dumpNode<GNATN>(g.tree_, dummy, rl);  // same labels as in the tree dump
        }
        s += " nq[";
        for (auto &e : g.nearQueue_.c)
        {
            char b[48];
            snprintf(b, sizeof b, "%g:", e.first);
            s += b + (e.second ? rl(*e.second) : std::string("null")) + ";";
        }
        s += "] dq" + std::to_string(g.nodeQueue_.c.size());
        return s;
    }
};
template <>
struct Canon<LIN>
{
    static std::string get(LIN &g)
    {
        std::string s;
        Relabel rl;
        for (auto &d : g.data_)
            s += rl(d) + ";";
        return s;
    }
};
template <>
struct Canon<SQRT>
{
    static std::string get(SQRT &g)
    {
        std::string s;
        Relabel rl;
        for (auto &d : g.data_)
            s += rl(d) + ";";
        return s + " c" + std::to_string(g.checks_) + " o" + std::to_string(g.offset_);
    }
};

template <class NN>
struct Sys
{
    Config cfg;
    Metric M;
    // the relabelled dump lists every stored element with its point and the removed set, so query answers are a function of it;
    // on revisits only the op results, size() and list() are compared with this history's model
    static constexpr bool kModelInCanon = true;
    static constexpr bool isGnat = std::is_same<NN, GNAT>::value || std::is_same<NN, GNATN>::value;
    static constexpr bool approx = std::is_same<NN, SQRT>::value;
    struct Obj
    {
        std::unique_ptr<NN> nn;
        std::multimap<int, El> model;  // id -> element; an element added twice (operator== copies) is held twice
        int nextId = 0;
        std::string last;
        std::string opErr;
        long asanAtOps = 0;
        long drawsInLastOp = 0;
    };
    std::vector<std::string> variants(Obj &o, const std::string &op)
    {
        // the op drew a k-centers pivot and was run with answer "first": also run it with the other answers
        std::vector<std::string> v;
        if (isGnat && o.drawsInLastOp > 0 && op.back() == '0' && (op[0] == 'A' || op[0] == 'D' || op[0] == 'R' || op[0] == 'V'))
            for (int u = 1; u < cfg.pivotModes; ++u)
                v.push_back(op.substr(0, op.size() - 1) + std::to_string(u));
        return v;
    }
    void checkBasics(Obj &o, std::function<void(const std::string &, const std::string &)> &fail)
    {
        NN &nn = *o.nn;
        std::string K = "C10|" + cname() + "|";
        if (!o.opErr.empty())
            fail(K + "op-result|after=" + opname(o.last), o.opErr);
        if (o.asanAtOps)
            fail(K + "memory|op|after=" + opname(o.last), "AddressSanitizer report inside an add/remove/clear operation");
        if (nn.size() != o.model.size())
            fail(K + "size|after=" + opname(o.last), "size() " + std::to_string(nn.size()) + " != elements held " + std::to_string(o.model.size()));
        std::vector<El> l;
        nn.list(l);
        std::vector<int> got, want;
        for (auto &e : l)
            got.push_back(e.id);
        for (auto &m : o.model)
            want.push_back(m.first);
        std::sort(got.begin(), got.end());
        if (got != want)
        {
            std::string g, w;
            for (int i : got)
                g += std::to_string(i) + " ";
            for (int i : want)
                w += std::to_string(i) + " ";
            fail(K + "list|after=" + opname(o.last), "list() ids [" + g + "] differ from the multiset held [" + w + "]");
        }
    }
    void checkTransition(Obj &o, const std::vector<std::string> &, std::function<void(const std::string &, const std::string &)> fail)
    {
        checkBasics(o, fail);
    }
    std::unique_ptr<Obj> make()
    {
        auto o = std::make_unique<Obj>();
        if constexpr (isGnat)
            o->nn = std::make_unique<NN>(2, 2, 3, cfg.leaf, cfg.cache, cfg.rebal);
        else
            o->nn = std::make_unique<NN>();
        Metric *m = &M;
        o->nn->setDistanceFunction([m](const El &a, const El &b) { return dist(*m, a, b); });
        return o;
    }
    std::vector<std::string> enabled(Obj &o)
    {
        std::vector<std::string> ops;
        int n = o.model.size();
        int pm = 1;  // pivot answer "first"; the other answers are spawned by variants() when the op really draws one
        if (n < cfg.cap)
            for (size_t i = 0; i < M.pts.size(); ++i)
                for (int u = 0; u < pm; ++u)
                    ops.push_back("A " + std::to_string(i) + " " + std::to_string(u));
        int k = 0;
        for (auto &m : o.model)
        {
            for (int u = 0; u < pm; ++u)
                ops.push_back("R " + std::to_string(k) + " " + std::to_string(u));
            ++k;
        }
        // a second copy of an element already held (the contents are a multiset): of the first and of the last element
        if (n > 0 && n < cfg.cap)
        {
            ops.push_back("D 0 0");
            if (n > 1 && !isGnat)  // (the GNAT state spaces are the large ones: one copy op there)
                ops.push_back("D " + std::to_string(n - 1) + " 0");
        }
        // removal of an element that is not there: one at a free spot, one sharing its point with a present element
        ops.push_back("X 0 0");
        if (n + 2 <= cfg.cap)
            for (int u = 0; u < pm; ++u)
            {
                ops.push_back("V 0 " + std::to_string(M.pts.size() - 1) + " -1 " + std::to_string(u));
                ops.push_back("V 1 1 -1 " + std::to_string(u));
            }
        if (n + 3 <= cfg.cap)
            for (int u = 0; u < pm; ++u)
            {
                ops.push_back("V 0 1 2 " + std::to_string(u));
                if (cfg.thorough)
                    ops.push_back("V 2 0 " + std::to_string(M.pts.size() - 1) + " " + std::to_string(u));
            }
        if (n > 0)
            ops.push_back("C");
        return ops;
    }
    El mk(Obj &o, int pt)
    {
        El e;
        e.id = o.nextId++;
        e.x = M.pts[pt].first;
        e.y = M.pts[pt].second;
        return e;
    }
    void apply(Obj &o, const std::string &op)
    {
        std::istringstream is(op.size() > 2 ? op.substr(2) : std::string());
        std::vector<int> a;
        int x;
        while (is >> x)
            a.push_back(x);
        o.last = op.substr(0, 1);
        ompl::verif::rngOracle() = &g_oracle;
        ompl::verif::permutationPick() = &permPick;
        g_permMode = 0;
        long a0 = vf::asanErrorCount();
        long d0 = g_pivotDraws;
        switch (op[0])
        {
            case 'A':
            {
                g_pivotMode = a[1];
                El e = mk(o, a[0]);
                o.nn->add(e);
                o.model.insert({e.id, e});
                break;
            }
            case 'D':
            {
                // add a copy (same id, same point: operator== says equal) of an element that is already there
                g_pivotMode = a[1];
                auto it = o.model.begin();
                std::advance(it, a[0]);
                El e = it->second;
                o.nn->add(e);
                o.model.insert({e.id, e});
                break;
            }
            case 'V':
            {
                g_pivotMode = a[3];
                std::vector<El> v;
                for (int i = 0; i < 3; ++i)
                    if (a[i] >= 0)
                    {
                        El e = mk(o, a[i]);
                        v.push_back(e);
                        o.model.insert({e.id, e});
                    }
                o.nn->add(v);
                break;
            }
            case 'R':
            {
                g_pivotMode = a[1];
                auto it = o.model.begin();
                std::advance(it, a[0]);
                El e = it->second;
                bool r = o.nn->remove(e);
                if (!r)
                    o.opErr = "remove() of a present element returned false";
                o.model.erase(it);
                break;
            }
            case 'X':
            {
                g_pivotMode = 0;
                El e;
                e.id = 1000000;
                e.x = M.pts[0].first;
                e.y = M.pts[0].second;
                if (o.nn->remove(e))
                    o.opErr = "remove() of an element that was never added returned true";
                break;
            }
            case 'C':
                o.nn->clear();
                o.model.clear();
                break;
        }
        o.asanAtOps += vf::asanErrorCount() - a0;
        o.drawsInLastOp = g_pivotDraws - d0;
    }
    std::string canon(Obj &o)
    {
        return Canon<NN>::get(*o.nn);
    }
    std::string outcome(Obj &o)
    {
        std::string s;
        for (auto &m : o.model)
        {
            char b[48];
            snprintf(b, sizeof b, "%g,%g;", m.second.x, m.second.y);
            s += b;
        }
        return s;
    }
    static const char *opname(const std::string &l)
    {
        switch (l.empty() ? '0' : l[0])
        {
            case 'A': return "add";
            case 'D': return "add-copy";
            case 'V': return "add-vector";
            case 'R': return "remove";
            case 'X': return "remove-absent";
            case 'C': return "clear";
        }
        return "init";
    }
    std::string cname() const
    {
        return cfg.cls;
    }
    // compare a result list with brute force
    void cmp(Obj &o, const El &q, const std::vector<El> &got, std::vector<double> want, const std::string &what, const std::string &K,
             std::function<void(const std::string &, const std::string &)> &fail)
    {
        std::sort(want.begin(), want.end());
        std::map<int, size_t> ids;
        bool member = true, dup = false, sorted = true;
        for (size_t i = 0; i < got.size(); ++i)
        {
            auto it = o.model.find(got[i].id);
            if (it == o.model.end() || it->second.x != got[i].x || it->second.y != got[i].y)
                member = false;
            if (++ids[got[i].id] > o.model.count(got[i].id))
                dup = true;  // more often than the structure holds it
            if (i && dist(M, q, got[i]) < dist(M, q, got[i - 1]))
                sorted = false;
        }
        if (!member)
            fail(K + what + "|non-member", what + " returned an element that is not (or no longer) in the structure");
        if (dup)
            fail(K + what + "|duplicate", what + " returned the same element twice");
        if (!sorted)
            fail(K + what + "|order", what + " result not in non-decreasing distance order");
        bool same = got.size() == want.size();
        if (same)
            for (size_t i = 0; i < got.size(); ++i)
                if (dist(M, q, got[i]) != want[i])
                    same = false;
        if (!same)
        {
            std::string g, w;
            for (auto &e : got)
                g += vf::jnum(dist(M, q, e)) + " ";
            for (double d : want)
                w += vf::jnum(d) + " ";
            fail(K + what + "|distances", what + " distances [" + g + "] differ from brute force [" + w + "]");
        }
    }
    void check(Obj &o, const std::vector<std::string> &hist, std::function<void(const std::string &, const std::string &)> fail)
    {
        NN &nn = *o.nn;
        std::string K = "C10|" + cname() + "|";
        long a0 = vf::asanErrorCount();
        checkBasics(o, fail);
        std::vector<El> qs;
        for (auto &p : M.pts)
            qs.push_back(El{-1, p.first, p.second});
        for (auto &p : M.extraQ)
            qs.push_back(El{-1, p.first, p.second});
        size_t n = o.model.size();
        std::vector<size_t> ks = {0, 1, 2, 3, n, n + 2};
        int permModes = std::is_same<NN, GNATN>::value ? cfg.permModes : 1;
        for (int pm = 0; pm < permModes; ++pm)
        {
            g_permMode = pm;
            for (auto &q : qs)
            {
                std::vector<double> all;
                for (auto &m : o.model)
                    all.push_back(dist(M, q, m.second));
                std::sort(all.begin(), all.end());
                // nearest
                if (n == 0)
                {
                    bool threw = false;
                    try
                    {
                        nn.nearest(q);
                    }
                    catch (ompl::Exception &)
                    {
                        threw = true;
                    }
                    if (!threw)
                        fail(K + "nearest|empty", "nearest() on an empty structure did not throw");
                }
                else
                {
                    El r;
                    bool threw = false;
                    try
                    {
                        r = nn.nearest(q);
                    }
                    catch (ompl::Exception &)
                    {
                        threw = true;
                    }
                    if (threw)
                        fail(K + "nearest|throws", "nearest() threw on a non-empty structure");
                    else
                    {
                        auto it = o.model.find(r.id);
                        if (it == o.model.end())
                            fail(K + "nearest|non-member", "nearest() returned an element that is not (or no longer) in the structure");
                        else if (!approx && dist(M, q, r) != all[0])
                            fail(K + "nearest|distance", "nearest() at distance " + vf::jnum(dist(M, q, r)) + ", brute force " + vf::jnum(all[0]));
                    }
                }
                for (size_t k : ks)
                {
                    std::vector<El> got;
                    got.push_back(El{-7, 0, 0});  // must be cleared by the call
                    nn.nearestK(q, k, got);
                    std::vector<double> want(all.begin(), all.begin() + std::min(k, all.size()));
                    cmp(o, q, got, want, "nearestK", K, fail);
                }
                for (double r : M.radii)
                {
                    std::vector<El> got;
                    got.push_back(El{-7, 0, 0});
                    nn.nearestR(q, r, got);
                    std::vector<double> want;
                    for (double d : all)
                        if (d <= r)
                            want.push_back(d);
                    cmp(o, q, got, want, "nearestR", K, fail);
                }
            }
        }
        g_permMode = 0;
        if (vf::asanErrorCount() != a0)
            fail(K + "memory|query", "AddressSanitizer report during queries");
    }
    bool nontrivial(Obj &o, const std::vector<std::string> &hist)
    {
        char c = hist.empty() ? 'A' : hist.back()[0];
        return o.model.size() >= 2 && c == 'R';
    }
};

// job: <GNAT|GNATN>-<metric>-l<leaf>-c<cache>-<rb|nr>  or  <Linear|Sqrt>-<metric>
static Config configure(const std::string &job, bool thorough)
{
    Config c;
    c.job = job;
    c.thorough = thorough;
    std::vector<std::string> p;
    std::istringstream is(job);
    std::string t;
    while (std::getline(is, t, '-'))
        p.push_back(t);
    c.cls = p[0];
    c.metricName = p[1];
    if (p.size() > 2)
    {
        c.leaf = atoi(p[2].c_str() + 1);
        c.cache = atoi(p[3].c_str() + 1);
        c.rebal = p[4] == "rb";
    }
    bool gn = c.cls[0] == 'G';
    c.cap = thorough ? 7 : 6;
    c.depth = gn ? (thorough ? 7 : 5) : (thorough ? 7 : 6);
    c.pivotModes = thorough ? 3 : 2;
    c.permModes = thorough ? 6 : 3;
    return c;
}
template <class NN>
static void runT(const Config &cfg, const vf::Args &a, vf::Report &r)
{
    Sys<NN> s;
    s.cfg = cfg;
    s.M = metric(cfg.metricName, cfg.thorough);
    vf::HBFS<Sys<NN>> bfs(s, r, a);
    bfs.maxDepth = cfg.depth;
    bfs.replayExtra = "\"job\":" + vf::jesc(cfg.job) + ",\"thorough\":" + (a.thorough() ? "true" : "false");
    bfs.run();
    r.bounds["depth"] = std::to_string(cfg.depth);
    r.bounds["element_cap"] = std::to_string(cfg.cap);
    r.bounds["closure"] = bfs.closed ? "true" : "false";
}
template <class NN>
static bool replayT(const Config &cfg, const vf::JV &v)
{
    Sys<NN> s;
    s.cfg = cfg;
    s.M = metric(cfg.metricName, cfg.thorough);
    // exactly as the search does it: every prefix on a FRESH object, all queries after its last op only (queries are not pure for
    // every structure: the non-thread-safe GNAT keeps scratch state that a query consumes)
    std::vector<std::string> all;
    for (auto &op : v["ops"].a)
        all.push_back(op.s);
    bool failed = false;
    for (size_t len = 1; len <= all.size() && !failed; ++len)
    {
        auto o = s.make();
        std::vector<std::string> hist(all.begin(), all.begin() + len);
        for (auto &op : hist)
            s.apply(*o, op);
        s.check(*o, hist, [&](const std::string &k, const std::string &w) {
            printf("after %zu ops: %s: %s\n", hist.size(), k.c_str(), w.c_str());
            failed = true;
        });
    }
    return failed;
}

int main(int argc, char **argv)
{
    vf::Harness H;
    H.property = "C10";
    H.jobs = [](const vf::Args &a) {
        std::vector<std::string> j;
        for (const char *m : {"l1d1", "l1d2", "clus"})
        {
            for (const char *cls : {"GNAT", "GNATN"})
                for (int leaf : {1, 2})
                    for (int cache : {1, 2})
                        for (const char *rb : {"nr", "rb"})
                            j.push_back(std::string(cls) + "-" + m + "-l" + std::to_string(leaf) + "-c" + std::to_string(cache) + "-" + rb);
            j.push_back(std::string("Linear-") + m);
            j.push_back(std::string("Sqrt-") + m);
        }
        return j;
    };
    H.run = [](const std::string &job, const vf::Args &a, vf::Report &r) {
        Config cfg = configure(job, a.thorough());
        if (cfg.cls == "GNAT")
            runT<GNAT>(cfg, a, r);
        else if (cfg.cls == "GNATN")
            runT<GNATN>(cfg, a, r);
        else if (cfg.cls == "Linear")
            runT<LIN>(cfg, a, r);
        else
            runT<SQRT>(cfg, a, r);
        r.rule = "BFS over op histories (add, add(vector), remove present, remove absent, clear; the k-centers first pivot is an enumerated "
                 "oracle answer {first,last[,middle]}; GNATNoThreadSafety child permutations are enumerated patterns) on the real structure "
                 "(degree 2, min 2, max 3); state = full private tree (pivots, data, ranges, radii, removed set, rebuild size, traversal offset "
                 "mod 6); every state: size, list, nearest, nearestK k in {0,1,2,3,n,n+2}, nearestR over every lattice query + 2 off-lattice, "
                 "distances vs brute force position by position; non-trivial = distinct states with >=2 elements entered by a removal";
        r.assumptions = {"distance function is a metric (L1 on integer lattices with ties, Euclid on tight clusters with duplicates)",
                         "element equality is identity (id); duplicates of a point are distinct elements",
                         "SqrtApprox: nearest() only required to return a current member"};
    };
    H.replay = [](const vf::JV &v) {
        Config cfg = configure(v["job"].s, v["thorough"].b);
        if (cfg.cls == "GNAT")
            return replayT<GNAT>(cfg, v);
        if (cfg.cls == "GNATN")
            return replayT<GNATN>(cfg, v);
        if (cfg.cls == "Linear")
            return replayT<LIN>(cfg, v);
        return replayT<SQRT>(cfg, v);
    };
    return vf::main(argc, argv, H);
}
