// C04 — solution costs: (a) E2-style enumeration of all short insertion histories into a ProblemDefinition; (b) E1 DBE over
// optimizing planners x objectives x thresholds with continued solves.
#include "cost_oracle.hpp"
#include "guard.hpp"
#include "asanhook.hpp"
#include "notime.hpp"

using namespace vw;

// ---------------- (a) ordering of the solution set ----------------
struct SolDesc
{
    bool approx, optimized, hasObj;
    double difference, cost;  // cost = objective cost when hasObj, else path length
    std::string str() const
    {
        char b[96];
        snprintf(b, sizeof b, "%s%s%s d=%.1f c=%.0f", approx ? "approx" : "exact", optimized ? " optimized" : "", hasObj ? " obj" : " len", difference, cost);
        return b;
    }
};
static std::vector<SolDesc> alphabet(bool thorough)
{
    std::vector<SolDesc> a;
    for (int optd = 0; optd < 2; ++optd)
        for (int obj = 0; obj < 2; ++obj)
            for (double c : {1.0, 2.0})
                a.push_back({false, (bool)optd, (bool)obj, 0.0, c});
    for (double d : {0.1, 0.2})
    {
        a.push_back({true, false, true, d, 1.0});
        a.push_back({true, false, false, d, 2.0});
        a.push_back({true, true, true, d, 2.0});  // approximate AND flagged as meeting the objective (a partial path reported the usual way)
        if (thorough)
        {
            a.push_back({true, true, false, d, 1.0});
            a.push_back({true, false, false, d, 1.0});
        }
    }
    return a;
}
// -1 a strictly before b, +1 after, 0 equal or unspecified by the statement
static int refCmp(const SolDesc &a, const SolDesc &b)
{
    if (a.approx != b.approx)
        return a.approx ? 1 : -1;
    if (a.approx)
        return a.difference < b.difference ? -1 : a.difference > b.difference ? 1 : 0;
    if (a.optimized != b.optimized)
        return a.optimized ? -1 : 1;
    if (a.hasObj != b.hasObj)
        return 0;  // one carries an objective cost, the other only a length: their cost order is not specified
    return a.cost < b.cost ? -1 : a.cost > b.cost ? 1 : 0;
}
static void runOrdering(const vf::Args &a, vf::Report &rep, const std::vector<int> *only = nullptr)
{
    auto sp = std::make_shared<ob::RealVectorStateSpace>(1);
    sp->setBounds(0, 10);
    auto si = std::make_shared<ob::SpaceInformation>(sp);
    si->setStateValidityChecker([](const ob::State *) { return true; });
    si->setup();
    auto opt = std::make_shared<ob::PathLengthOptimizationObjective>(si);
    auto A = alphabet(a.thorough());
    int maxLen = a.thorough() ? 5 : 4;
    auto mkPath = [&](double len) {
        auto p = std::make_shared<og::PathGeometric>(si);
        ob::ScopedState<> s0(sp), s1(sp);
        s0[0] = 0;
        s1[0] = len;
        p->append(s0.get());
        p->append(s1.get());
        return p;
    };
    std::vector<int> seq;
    std::function<void()> rec = [&]() {
        if (!seq.empty())
        {
            // replay the whole insertion history on a fresh definition, checking after every insertion
            auto pdef = std::make_shared<ob::ProblemDefinition>(si);
            std::vector<ob::PathPtr> paths;
            std::string rj = "{\"part\":\"ordering\",\"thorough\":" + std::string(a.thorough() ? "true" : "false") + ",\"seq\":[";
            for (size_t i = 0; i < seq.size(); ++i)
                rj += (i ? "," : "") + std::to_string(seq[i]);
            rj += "]}";
            for (size_t n = 0; n < seq.size(); ++n)
            {
                const SolDesc &d = A[seq[n]];
                auto path = mkPath(d.hasObj ? 3.0 : d.cost);
                paths.push_back(path);
                ob::PlannerSolution sol(path);
                if (d.approx)
                    sol.setApproximate(d.difference);
                if (d.hasObj)
                    sol.setOptimized(opt, ob::Cost(d.cost), d.optimized);
                else
                    sol.optimized_ = d.optimized;
                pdef->addSolutionPath(sol);
                if (n + 1 < seq.size())
                    continue;  // prefixes were checked when they were the whole sequence
                auto sols = pdef->getSolutions();
                rep.transitions++;
                if (sols.size() != n + 1 || pdef->getSolutionCount() != n + 1)
                {
                    rep.fail("C04|ordering|count", "getSolutions() holds " + std::to_string(sols.size()) + " entries after " + std::to_string(n + 1) + " insertions", rj);
                    continue;
                }
                // permutation of what was added, index_ = insertion order
                std::vector<int> seen(n + 1, 0);
                bool perm = true;
                for (auto &s : sols)
                {
                    if (s.index_ < 0 || s.index_ > (int)n || seen[s.index_]++ || s.path_ != paths[s.index_])
                        perm = false;
                }
                if (!perm)
                    rep.fail("C04|ordering|permutation", "getSolutions() is not a permutation of the inserted solutions (index_/path mismatch)", rj);
                else
                {
                    const SolDesc &top = A[seq[sols[0].index_]];
                    for (size_t i = 0; i <= n; ++i)
                        if (refCmp(A[seq[i]], top) < 0)
                        {
                            rep.fail("C04|ordering|best-first", "best-first violated: [" + A[seq[i]].str() + "] should come before the reported top [" + top.str() + "]", rj);
                            break;
                        }
                    if (pdef->getSolutionPath() != sols[0].path_)
                        rep.fail("C04|ordering|getSolutionPath", "getSolutionPath() is not the first element of getSolutions()", rj);
                    if (pdef->hasApproximateSolution() != top.approx || pdef->hasExactSolution() != !top.approx)
                        rep.fail("C04|ordering|approximate-flag", "hasApproximateSolution()/hasExactSolution() do not describe the top solution [" + top.str() + "]", rj);
                    if (pdef->hasOptimizedSolution() != top.optimized)
                        rep.fail("C04|ordering|optimized-flag", "hasOptimizedSolution() does not describe the top solution [" + top.str() + "]", rj);
                    if (pdef->getSolutionDifference() != (top.approx ? top.difference : 0.0))
                        rep.fail("C04|ordering|difference", "getSolutionDifference() " + vf::jnum(pdef->getSolutionDifference()) + " does not describe the top solution [" + top.str() + "]", rj);
                    ob::PlannerSolution ts(nullptr);
                    if (!pdef->getSolution(ts) || ts.path_ != sols[0].path_)
                        rep.fail("C04|ordering|getSolution", "getSolution() does not return the top solution", rj);
                }
                vf::Hash o;
                for (auto &s : sols)
                    o.add(seq[s.index_]);
                rep.outcomes.insert(o.h);
            }
            rep.evaluations++;
            rep.states++;
            vf::Hash h;
            for (int x : seq)
                h.add(x);
            if (seq.size() >= 2)
                rep.nontrivial.insert(h.h);
            if (seq.size() == (size_t)maxLen && rep.samples.size() < 3 && (rep.evaluations % 5003) == 0)
            {
                std::vector<std::string> d;
                for (int x : seq)
                    d.push_back(A[x].str());
                rep.sample(vf::jstrs(d));
            }
            // clearSolutionPaths empties everything
            pdef->clearSolutionPaths();
            if (pdef->hasSolution() || pdef->getSolutionCount() != 0 || pdef->getSolutionPath() || pdef->getSolutionDifference() != -1.0 || pdef->hasApproximateSolution() || pdef->hasOptimizedSolution())
                rep.fail("C04|ordering|clear", "clearSolutionPaths() left solution state behind", rj);
        }
        if ((int)seq.size() == maxLen)
            return;
        for (size_t i = 0; i < A.size(); ++i)
        {
            seq.push_back((int)i);
            rec();
            seq.pop_back();
        }
    };
    if (only)
    {
        seq = *only;
        // evaluate exactly this sequence (and nothing below it)
        int keep = maxLen;
        maxLen = (int)seq.size();
        rec();
        maxLen = keep;
    }
    else
        rec();
    rep.bounds["ordering_alphabet"] = std::to_string(A.size());
    rep.bounds["ordering_max_insertions"] = std::to_string(maxLen);
}

// ---------------- (b) planners ----------------
struct Exec
{
    Cfg cfg;
    std::vector<int> budgets;  // > 0: solve with that evaluation budget; -1: clearQuery + switch to the other query; -2: clear + switch
    std::map<size_t, int> dev;
    bool shortFirst = false;   // start with a short query, the main query comes after the switch
    std::string json() const
    {
        std::string b = "[";
        for (size_t i = 0; i < budgets.size(); ++i)
            b += (i ? "," : "") + std::to_string(budgets[i]);
        return "{\"part\":\"planner\"," + cfg.json() + ",\"budgets\":" + b + "],\"shortFirst\":" + (shortFirst ? "true" : "false") + ",\"dev\":" + vc::devJson(dev) + "}";
    }
};

static std::vector<vc::Point> execute(const Exec &e, const vo::Fail &fail, uint64_t *obsOut = nullptr)
{
    const std::string &pl = e.cfg.planner;
    unsigned flags = vpl::find(pl)->flags;
    vc::Oracle so;
    so.salt = 77;
    std::unique_ptr<Problem> P;
    {
        vc::Install i(so);
        P = std::make_unique<Problem>(e.cfg);
    }
    vc::Oracle o;
    o.dev = e.dev;
    o.horizon = 400000;
    vc::Install inst(o);
    auto opt = P->pdef->getOptimizationObjective();
    vf::Hash obs;
    bool haveBest = false;
    ob::Cost best;
    ob::ProblemDefinitionPtr cur = P->pdef, other;
    if (e.shortFirst)
    {
        // the planner first answers a SHORT query, the main (longer, costlier) query comes after the switch
        other = P->pdef;
        cur = vco::shortQuery(*P);
        P->planner->setProblemDefinition(cur);
    }
    try
    {
        for (int budget : e.budgets)
        {
            if (budget < 0)
            {
                // -1: clearQuery() (multi-query planners keep their roadmap), -2: clear(); then the other definition
                if (budget == -1)
                    P->planner->clearQuery();
                else
                    P->planner->clear();
                if (!other)
                    other = P->query2();
                std::swap(cur, other);
                cur->clearSolutionPaths();
                P->planner->setProblemDefinition(cur);
                haveBest = false;
                obs.add(budget);
                continue;
            }
            ob::PlannerStatus st = P->solve(budget);
            obs.add((int)(ob::PlannerStatus::StatusType)st);
            vco::Best bestNowB;
            vco::checkCosts(P->space.get(), cur.get(), flags, pl, e.cfg.objectiveKind, fail, &obs, bestNowB);
            bool haveNow = bestNowB.have;
            ob::Cost bestNow = bestNowB.cost;
            if (haveBest && haveNow && opt->isCostBetterThan(best, bestNow) && std::fabs(best.value() - bestNow.value()) > 1e-9 * (1 + std::fabs(best.value())))
                fail("C04|best-cost-worsens|" + pl, "best stored cost of an exact solution went from " + vf::jnum(best.value()) + " to " + vf::jnum(bestNow.value()) + " across continued solves");
            if (haveNow)
            {
                best = bestNow;
                haveBest = true;
            }
            // the definition hands out the best first (same reference order as part (a))
            auto sols = cur->getSolutions();
            for (size_t i = 1; i < sols.size(); ++i)
            {
                SolDesc t{sols[0].approximate_, sols[0].optimized_, (bool)sols[0].opt_, sols[0].difference_, sols[0].opt_ ? sols[0].cost_.value() : sols[0].length_};
                SolDesc x{sols[i].approximate_, sols[i].optimized_, (bool)sols[i].opt_, sols[i].difference_, sols[i].opt_ ? sols[i].cost_.value() : sols[i].length_};
                bool maximize = e.cfg.objectiveKind == "clearance";
                if (maximize && !t.approx && !x.approx && t.optimized == x.optimized)
                    continue;  // larger is better there; the generic comparison below assumes minimisation
                if (refCmp(x, t) < 0)
                {
                    fail("C04|best-first|" + pl, "problem definition hands out [" + t.str() + "] before [" + x.str() + "]");
                    break;
                }
            }
        }
    }
    catch (vc::Horizon &)
    {
        fail("C04|draw-horizon|" + pl, "more than 400000 random draws");
    }
    catch (ompl::Exception &)
    {
        obs.add(-1);
    }
    if (obsOut)
        *obsOut = obs.h;
    P->planner.reset();
    cur.reset();
    other.reset();
    P.reset();
    return o.trace;
}

static std::vector<Cfg> configs(const std::string &planner, bool thorough)
{
    std::vector<Cfg> v;
    std::vector<std::string> kinds = {"length", "integral", "integralnl", "work", "clearance", "multi"};
    for (auto &map : std::vector<std::string>{"wallgap4", "maze6", "empty4"})
        for (auto &k : kinds)
        {
            std::vector<double> thr = {-1};
            if (k == "length")
                thr = {-1, 1e6, 6.0};  // default (0: never met), always met, in between
            else if (map == "wallgap4")
                thr = {-1, 1e6};
            if (!thorough && map == "empty4" && k != "length")
                continue;
            if (!thorough && k == "integralnl" && map != "wallgap4")
                continue;  // the non-linear field: one map in the quick tier
            // option variants: the quick tier drives every objective on one map and the direction-sensitive ones on a second
            if (!thorough && (vpl::find(planner)->flags & vpl::VARIANT) && (map == "empty4" || (map == "maze6" && k != "length" && k != "work")))
                continue;
            for (double t : thr)
            {
                Cfg c;
                c.planner = planner;
                c.map = map;
                c.objectiveKind = k;
                c.costThreshold = t;
                v.push_back(c);
            }
        }
    return v;
}

int main(int argc, char **argv)
{
    ompl::msg::setLogLevel(ompl::msg::LOG_NONE);
    vf::Harness H;
    H.property = "C04";
    H.jobs = [](const vf::Args &) {
        std::vector<std::string> j{"ordering"};
        for (auto &e : vpl::planners())
            if ((e.flags & vpl::OPTIMIZING) && !(e.flags & vpl::TWO_THREADED))
                j.push_back(e.name);
        // planners that are not in the statement's list still report through the same ProblemDefinition: two representatives
        j.push_back("RRTConnect");
        j.push_back("KPIECE1");
        return j;
    };
    H.run = [](const std::string &job, const vf::Args &a, vf::Report &rep) {
        if (job == "ordering")
        {
            runOrdering(a, rep);
            rep.rule = "ProblemDefinition ordering: EVERY insertion history of length <= 4 (thorough 5) over an alphabet of solution kinds (exact/approximate x difference x optimized x objective-cost "
                       "or plain length x two cost values), checked after every insertion against a reference order; states = histories";
            return;
        }
        const std::string planner = job;
        int jobCrashes = 0;
        for (auto &cfg : configs(planner, a.thorough()))
        {
            if (a.expired() || jobCrashes >= 2)
            {
                rep.exhaustive = false;
                rep.caps.push_back(std::string(jobCrashes >= 2 ? "crash cap: " : "deadline: ") + "configurations of " + planner + " left unexplored");
                break;
            }
            std::set<std::string> skip;
            for (;;)
            {
                vg::Group G;
                G.onChildStart = [] { vf::virtualSleep() = true; };
                auto body = [&](vf::Report &r) {
                    std::vector<int> history = {20, 45, 70};
                    bool shortFirst = false;
                    auto run = [&](const std::map<size_t, int> &dev) -> std::vector<vc::Point> {
                        Exec e{cfg, history, dev, shortFirst};
                        std::string ej = e.json();
                        if (skip.count(ej))
                            return {};
                        G.announce(ej);
                        alarm(6);
                        uint64_t obs = 0;
                        long a0 = vf::asanErrorCount();
                        auto tr = execute(e, [&](const std::string &k, const std::string &w) { r.fail(k, w, ej); }, &obs);
                        if (vf::asanErrorCount() != a0)
                            r.fail("C04|memory|" + planner, "AddressSanitizer report", ej);
                        alarm(0);
                        r.evaluations++;
                        r.transitions += 3;
                        r.outcomes.insert(obs);
                        vf::Hash h;
                        h.adds(ej);
                        if (!dev.empty())
                            r.nontrivial.insert(h.h);
                        if (r.samples.size() < 2 && !dev.empty() && (r.evaluations % 101) == 0)
                            r.sample(ej);
                        return tr;
                    };
                    {
                        uint64_t o1 = 0, o2 = 0;
                        Exec e{cfg, {20, 45, 70}, {}};
                        if (!skip.count(e.json()))
                        {
                            G.announce(e.json());
                            alarm(12);
                            execute(e, [](const std::string &, const std::string &) {}, &o1);
                            void *pad = malloc(5000);
                            execute(e, [](const std::string &, const std::string &) {}, &o2);
                            free(pad);
                            alarm(0);
                            if (o1 != o2)
                                r.fail("C04|nondeterministic-replay|" + planner, "same answer stream, different stored costs", e.json());
                            r.validated++;
                        }
                    }
                    vc::DBE dbe;
                    dbe.D = a.thorough() ? 2 : 1;
                    dbe.N = a.thorough() ? 30 : 24;
                    dbe.expired = [&] { return a.expired(); };
                    dbe.explore(run);
                    bool cut = dbe.cut;
                    // query-switch histories: a short query first, then (clearQuery | clear) + the main, costlier query, continued once;
                    // and main query, switch to the second query, switch back. Nothing of an earlier query may survive in the stored costs.
                    if (cfg.costThreshold < 0 || cfg.objectiveKind == "length")
                        for (int sw : {-1, -2})
                            for (int form = 0; form < 2; ++form)
                            {
                                shortFirst = form == 0;
                                history = form == 0 ? std::vector<int>{25, sw, 45, 30} : std::vector<int>{45, sw, 30, sw, 45};
                                vc::DBE d2;
                                d2.D = 1;
                                d2.N = a.thorough() ? 12 : 4;
                                d2.expired = [&] { return a.expired(); };
                                d2.explore(run);
                                cut = cut || d2.cut;
                                r.states++;
                            }
                    if (cut)
                    {
                        r.exhaustive = false;
                        r.caps.push_back("deadline inside " + planner);
                    }
                    r.states++;
                };
                vg::Outcome out = G.run(body, rep, 300);
                if (out.clean)
                    break;
                if (out.current.empty())
                {
                    rep.exhaustive = false;
                    rep.caps.push_back("child died before announcing an execution in " + planner);
                    break;
                }
                // crashes and hangs are C01/C03's findings; here the execution is only skipped (and the cap recorded)
                rep.caps.push_back("execution skipped after child death (crash/hang is decided by C01/C03): " + planner + " / " + cfg.map);
                rep.exhaustive = false;
                skip.insert(out.current);
                if (++jobCrashes >= 2)
                    break;
            }
        }
        rep.rule = "optimizing planners x {path length, state-cost integral, mechanical work, max-min clearance, weighted multi-objective} x cost thresholds {never met, always met, between} x maps, "
                   "three continued solves (budgets 20,45,70), every execution with <= D deviations among the first N choice points; per reported solution: stored cost vs. the harness fold of the "
                   "objective over the path, admissible straight-line bound, optimized flag <=> threshold, non-worsening best cost, best-first; states = configurations";
        rep.assumptions = {"solutions to which the planner attached no objective are subject to the ordering clauses only",
                           "the optimized flag is asserted on exact solutions only (approximate ones are deliberately marked unoptimized)",
                           "RRT#, RRTX, LBTRRT, LazyLBTRRT, TRRT defer cost propagation: stored cost must not be better than the true cost, equality is not required",
                           "pairs mixing a solution that carries an objective cost with one that carries only a length are compared down to the optimized flag"};
    };
    H.replay = [](const vf::JV &v) {
        bool failed = false;
        if (v["part"].s == "ordering")
        {
            vf::Args a;
            if (v["thorough"].b)
                a.tier = "thorough";
            vf::Report r;
            std::vector<int> seq;
            for (auto &x : v["seq"].a)
                seq.push_back((int)x.i());
            runOrdering(a, r, &seq);
            for (auto &f : r.failures)
                printf("%s: %s\n", f.key.c_str(), f.what.c_str());
            return !r.failures.empty();
        }
        Exec e{Cfg::fromJson(v), {}, {}};
        for (auto &b : v["budgets"].a)
            e.budgets.push_back((int)b.i());
        for (auto &d : v["dev"].a)
            e.dev[(size_t)d[0].i()] = (int)d[1].i();
        if (v.has("shortFirst"))
            e.shortFirst = v["shortFirst"].b;
        vf::virtualSleep() = true;
        alarm(60);
        execute(e, [&](const std::string &k, const std::string &w) {
            printf("%s: %s\n", k.c_str(), w.c_str());
            failed = true;
        });
        return failed;
    };
    return vf::main(argc, argv, H);
}
