// C07 — interpolation. E3: all ordered pairs of the lattice x all (t) / (s,u) over a boundary-value parameter alphabet.
#include "spaces.hpp"
#include "vf.hpp"
#include "asanhook.hpp"
#include <ompl/util/Console.h>

using namespace vsp;

static const std::vector<double> TS_QUICK = {0.0, 1e-9, 0.25, 0.5, 0.75, 1.0 - 1e-9, 1.0};
static const std::vector<double> TS_THOROUGH = {0.0, 5e-324, 1e-300, 1e-16, 1e-9, 0.1, 0.25, 1.0 / 3, 0.5, 0.6180339887498949, 0.75, 0.9, 1.0 - 1e-9, 0.9999999999999999, 1.0};

struct Ctx
{
    SpaceCfg &c;
    std::function<void(const std::string &, const std::string &, const std::string &)> fail;
    ob::State *o1, *o2, *o3, *p, *q1, *q2;
    Ctx(SpaceCfg &cfg) : c(cfg)
    {
        auto &sp = c.space;
        for (auto &l : c.lattice)
            for (double d : l)
                if (std::isfinite(d))
                    magnitude = std::max(magnitude, std::fabs(d));
        o1 = sp->allocState();
        o2 = sp->allocState();
        o3 = sp->allocState();
        p = sp->allocState();
        q1 = sp->allocState();
        q2 = sp->allocState();
    }
    ~Ctx()
    {
        for (auto *s : {o1, o2, o3, p, q1, q2})
            c.space->freeState(s);
    }
    double magnitude = 0;  // largest |coordinate| of the lattice: results cannot be more precise than a few ulp of it
    double tolFor(double x) const
    {
        return c.tol * (1 + std::fabs(x)) + 16 * 2.220446049250313e-16 * magnitude;
    }
    std::string rj(const Coords &a, const Coords &b, double t, double u = -1) const
    {
        return "{\"space\":" + vf::jesc(c.name) + ",\"a\":" + cstr(a) + ",\"b\":" + cstr(b) + ",\"t\":" + vf::jnum(t) + ",\"u\":" + vf::jnum(u) + "}";
    }
    bool inBounds(const ob::State *s) const
    {
        if (!c.headingOnly)
            return c.space->satisfiesBounds(s);
        // Dubins / Reeds-Shepp: a curvature-bounded curve from a pose on the box boundary may have to leave the box;
        // the heading component must stay in bounds
        auto *se2 = s->as<ob::SE2StateSpace::StateType>();
        double yaw = se2->getYaw();
        return yaw >= -PI && yaw < PI;
    }
    bool same(const ob::State *x, const ob::State *y, double scale) const
    {
        if (c.space->equalStates(x, y))
            return true;
        if (c.headingOnly)
        {
            // Dubins / Reeds-Shepp: their distance is NOT continuous (two poses 1e-6 apart can be a full loop apart), so closeness of
            // two results is closeness of the poses: position and heading
            auto *p1 = x->as<ob::SE2StateSpace::StateType>(), *p2 = y->as<ob::SE2StateSpace::StateType>();
            double dyaw = std::fabs(p1->getYaw() - p2->getYaw());
            dyaw = std::min(dyaw, 2 * PI - dyaw);
            return std::hypot(p1->getX() - p2->getX(), p1->getY() - p2->getY()) <= tolFor(scale) && dyaw <= tolFor(scale);
        }
        // equalStates is exact (or 2 eps) in most spaces; the property is about the curve, so allow the law tolerance.
        // Symmetric distance evaluation (some spaces are not symmetric).
        double d = std::min(c.space->distance(x, y), c.space->distance(y, x));
        return d <= tolFor(scale);
    }
    // all clauses for one (a,b,t)
    void one(const ob::State *a, const ob::State *b, const Coords &ca, const Coords &cb, double t)
    {
        auto &sp = c.space;
        double dab = sp->distance(a, b);
        sp->interpolate(a, b, t, o1);
        if (t == 0.0 && !same(o1, a, dab))
            fail("C07|t0|" + c.name, "interpolate(a,b,0) = " + cstr(getCoords(sp, o1)) + " is not a", rj(ca, cb, t));
        if (t == 1.0 && !same(o1, b, dab))
            fail("C07|t1|" + c.name, "interpolate(a,b,1) = " + cstr(getCoords(sp, o1)) + " is not b", rj(ca, cb, t));
        if (!inBounds(o1))
        {
            // classify by cause: a box coordinate that overshoots its bound by <= 2 ulp at t = 1 (rounding of from + (to - from) * t)
            // is kept apart from every other way of leaving the bounds
            bool ulpOnly = t >= 0.9999999999999998 && !c.headingOnly;
            if (ulpOnly)
            {
                sp->copyState(o2, o1);
                sp->enforceBounds(o2);
                Coords x = getCoords(sp, o1), y = getCoords(sp, o2);
                for (size_t i = 0; i < x.size() && i < y.size(); ++i)
                {
                    double m = std::max(std::fabs(x[i]), std::fabs(y[i]));
                    if (std::fabs(x[i] - y[i]) > 2 * (std::nextafter(m, INFINITY) - m))
                        ulpOnly = false;
                }
            }
            fail("C07|bounds|" + c.name + (ulpOnly ? "|one-ulp-overshoot-at-t1" : ""), "interpolate(a,b," + vf::jnum(t) + ") = " + cstr(getCoords(sp, o1)) + " violates the space bounds", rj(ca, cb, t));
        }
        // aliasing: output aliases from / to
        sp->copyState(o2, a);
        sp->interpolate(o2, b, t, o2);
        sp->copyState(o3, b);
        sp->interpolate(a, o3, t, o3);
        Coords r1 = getCoords(sp, o1), r2 = getCoords(sp, o2), r3 = getCoords(sp, o3);
        if (r1 != r2 && !same(o1, o2, dab))
            fail("C07|alias-from|" + c.name, "result differs when the output aliases 'from': " + cstr(r2) + " vs " + cstr(r1), rj(ca, cb, t));
        if (r1 != r3 && !same(o1, o3, dab))
            fail("C07|alias-to|" + c.name, "result differs when the output aliases 'to': " + cstr(r3) + " vs " + cstr(r1), rj(ca, cb, t));
        if (c.geodesic && inBounds(o1))
        {
            double d = sp->distance(a, o1);
            if (std::fabs(d - t * dab) > tolFor(dab))
                fail("C07|proportional|" + c.name, "d(a, interpolate(a,b,t)) = " + vf::jnum(d) + " but t*d(a,b) = " + vf::jnum(t * dab), rj(ca, cb, t));
        }
    }
    // re-parameterisation for (a,b,s,u)
    void reparam(const ob::State *a, const ob::State *b, const Coords &ca, const Coords &cb, double s, double u)
    {
        if (c.reparamExempt)
            return;
        auto &sp = c.space;
        double dab = sp->distance(a, b);
        sp->interpolate(a, b, s, p);
        if (!inBounds(p))
            return;  // reported by one(); distance() on an out-of-bounds state is outside its precondition
                     // (Dubins/Reeds-Shepp: only the heading is a precondition of their distance())
        sp->interpolate(p, b, u, q1);
        double w = s + (1.0 - s) * u;
        sp->interpolate(a, b, w, q2);
        if (same(q1, q2, dab))
            return;
        if (c.tieRule)
        {
            // where shortest curves are not unique the point reached must lie on A shortest curve at the right fraction
            if (inBounds(q1))
            {
                double tol = 10 * tolFor(dab);
                if (c.headingOnly)
                {
                    // Dubins family: the (symmetrised) distance is not additive along its own curves, so "on a shortest
                    // curve" is decided by necessary conditions: the remainder of the original motion is itself a shortest
                    // p->b curve (a tie), and q1 sits on a p->b curve of that length at arc fraction u
                    double dpb = sp->distance(p, b);
                    if (std::fabs(dpb - (1.0 - s) * dab) <= tol && sp->distance(p, q1) <= u * dpb + tol && sp->distance(q1, b) <= (1.0 - u) * dpb + tol)
                        return;
                }
                else
                {
                    double d1 = sp->distance(a, q1), d2 = sp->distance(q1, b);
                    if (std::fabs(d1 + d2 - dab) <= tol && std::fabs(d1 - w * dab) <= tol)
                        return;
                }
            }
        }
        // classify by cause, so that a known finding of one class cannot hide a different defect
        std::string cls = "curve-differs";
        if (inBounds(p))
        {
            double dpb = sp->distance(p, b), rem = (1.0 - s) * dab, tol = 10 * tolFor(dab);
            if (dpb < rem - tol)
                cls = "shorter-way-from-intermediate-point";  // the remainder of the reported curve is not a shortest curve
            else if (dpb > rem + tol)
                cls = "distance-exceeds-remaining-curve";  // distance() reports more than the length of a feasible curve
        }
        fail("C07|reparam|" + c.name + "|" + cls, "interpolate(interpolate(a,b,s),b,u) = " + cstr(getCoords(sp, q1)) + " but interpolate(a,b,s+(1-s)u) = " + cstr(getCoords(sp, q2)), rj(ca, cb, s, u));
    }
};

static void runSpace(const std::string &name, const vf::Args &a, vf::Report &rep)
{
    SpaceCfg c = makeSpace(name, 3);
    // lattice enlarged by states the space itself produces between lattice members (rounding cases the hand-written values miss)
    densify(c, a.thorough() ? 320 : std::max<size_t>(110, c.lattice.size() + 40));
    const std::vector<double> &TS = a.thorough() ? TS_THOROUGH : TS_QUICK;
    Pool P(c);
    Ctx X(c);
    X.fail = [&](const std::string &k, const std::string &w, const std::string &r) { rep.fail(k, w, r); };
    size_t n = P.st.size();
    for (size_t i = 0; i < n; ++i)
        for (size_t j = 0; j < n; ++j)
        {
            for (double t : TS)
            {
                X.one(P.st[i], P.st[j], c.lattice[i], c.lattice[j], t);
                rep.evaluations++;
                rep.transitions += 3;
                vf::Hash o;
                o.adds(name);
                for (double d : getCoords(c.space, X.o1))
                    o.addd(d);
                rep.outcomes.insert(o.h);
            }
            for (double s : TS)
                for (double u : TS)
                {
                    X.reparam(P.st[i], P.st[j], c.lattice[i], c.lattice[j], s, u);
                    rep.evaluations++;
                    rep.transitions += 3;
                }
            if (i != j)
            {
                vf::Hash h;
                h.adds(name);
                h.add(i);
                h.add(j);
                rep.nontrivial.insert(h.h);
            }
        }
    rep.states += n * n;
    rep.bounds["lattice_" + name] = std::to_string(n);
    if (n >= 2)
        rep.sample(X.rj(c.lattice[0], c.lattice[n - 1], 0.25, 0.5));
}

int main(int argc, char **argv)
{
    ompl::msg::setLogLevel(ompl::msg::LOG_NONE);
    vf::Harness H;
    H.property = "C07";
    H.jobs = [](const vf::Args &a) { return spaceNames(a.thorough()); };
    H.run = [](const std::string &job, const vf::Args &a, vf::Report &r) {
        runSpace(job, a, r);
        r.rule = "per space configuration: ALL ordered pairs of the boundary-value lattice x t in {0,1e-9,.25,.5,.75,1-1e-9,1} (end points, bounds, aliasing of the output with either "
                 "input, proportional distance for the geodesic spaces named in the statement) and x ALL (s,u) in the same alphabet squared for re-parameterisation; "
                 "states = pairs, non-trivial = pairs of distinct lattice points";
        r.assumptions = {"in-bounds inputs", "tolerances as for C06",
                         "where shortest curves are not unique (antipodal rotations, symmetric Dubins, Reeds-Shepp ties, gluing seams) re-parameterisation is checked up to the choice of shortest curve",
                         "discrete and hybrid spaces are exempt from re-parameterisation (rounding), as in the library's own sanityChecks",
                         "Dubins/Reeds-Shepp: only the heading must stay in bounds (a curvature-bounded curve from the box boundary may leave the box)",
                         "the sphere's chart interpolation is not claimed proportional"};
    };
    H.replay = [](const vf::JV &v) {
        bool failed = false;
        SpaceCfg c = makeSpace(v["space"].s, 0);
        auto rd = [&](const vf::JV &x) {
            Coords r;
            for (auto &e : x.a)
                r.push_back(e.d());
            return r;
        };
        Coords ca = rd(v["a"]), cb = rd(v["b"]);
        ob::State *a = c.space->allocState(), *b = c.space->allocState();
        setCoords(c.space, a, ca);
        setCoords(c.space, b, cb);
        Ctx X(c);
        X.fail = [&](const std::string &k, const std::string &w, const std::string &) {
            printf("%s: %s\n", k.c_str(), w.c_str());
            failed = true;
        };
        double t = v["t"].d(), u = v["u"].d();
        if (u < 0)
            X.one(a, b, ca, cb, t);
        else
            X.reparam(a, b, ca, cb, t, u);
        c.space->freeState(a);
        c.space->freeState(b);
        return failed;
    };
    return vf::main(argc, argv, H);
}
