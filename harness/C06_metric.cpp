// C06 — metric laws. E3: all pairs and all triples of a boundary-value lattice per space configuration.
#include "spaces.hpp"
#include "vf.hpp"
#include "asanhook.hpp"
#include <ompl/util/Console.h>
#include <typeinfo>

using namespace vsp;

// car-like spaces (Dubins / Reeds-Shepp): two poses less than 5e-3 apart whose headings agree to 1e-9 - a micro-motion along (almost) the
// heading, where the float word selection of the solvers is degenerate (cf. the C14 / C07 known findings). Failures that involve such a
// pair are classified apart, so that the known degenerate case cannot absorb a defect on generic poses.
static bool microMotion(const SpaceCfg &c, const Coords &p, const Coords &q)
{
    if (!c.headingOnly || p.size() < 3 || q.size() < 3)
        return false;
    double dh = std::fabs(std::remainder(p[2] - q[2], 2 * M_PI));
    double dp = std::hypot(p[0] - q[0], p[1] - q[1]);
    return dp > 0 && dp < 5e-3 && dh < 1e-9;
}

struct Laws
{
    SpaceCfg &c;
    std::function<void(const std::string &, const std::string &, const std::string &)> fail;  // key, what, replay
    double tolFor(double x) const
    {
        return c.tol * (1 + std::fabs(x));
    }
    std::string rj(const Coords &a, const Coords &b, const Coords *cc = nullptr) const
    {
        return "{\"space\":" + vf::jesc(c.name) + ",\"a\":" + cstr(a) + ",\"b\":" + cstr(b) + (cc ? ",\"c\":" + cstr(*cc) : std::string()) + "}";
    }
    // pair laws; returns d(a,b)
    double pair(const ob::State *a, const ob::State *b, const Coords &ca, const Coords &cb, bool same)
    {
        auto &sp = c.space;
        double d = sp->distance(a, b);
        if (!(d >= 0) || std::isnan(d))
            fail("C06|non-negative|" + c.name, "distance " + vf::jnum(d) + " is negative or NaN", rj(ca, cb));
        if (same)
        {
            if (d != 0 && d > tolFor(0))
                fail("C06|identity|" + c.name, "distance from a state to itself is " + vf::jnum(d), rj(ca, cb));
            return d;
        }
        if (d == 0 && !sp->equalStates(a, b) && !c.pseudoMetric)
        {
            long double sep = refSeparation(sp, ca, cb);
            if (sep > c.tol)
                fail("C06|positivity|" + c.name, "distance 0 between states that are not equal and are " + vf::jnum((double)sep) + " apart by the reference distance", rj(ca, cb));
        }
        if (c.extentLaw)
        {
            double ext = sp->getMaximumExtent();
            if (d > ext + tolFor(ext))
                fail("C06|extent|" + c.name, "distance " + vf::jnum(d) + " exceeds getMaximumExtent() " + vf::jnum(ext), rj(ca, cb));
        }
        if (sp->hasSymmetricDistance())
        {
            double e = sp->distance(b, a);
            if (std::fabs(d - e) > tolFor(d))
                fail("C06|symmetry|" + c.name + (microMotion(c, ca, cb) ? "|micro-motion-along-heading" : ""), "d(a,b)=" + vf::jnum(d) + " but d(b,a)=" + vf::jnum(e) + " although the space claims a symmetric distance", rj(ca, cb));
        }
        if (c.plainCompound)
        {
            auto *cs = sp->as<ob::CompoundStateSpace>();
            double sum = 0;
            for (unsigned i = 0; i < cs->getSubspaceCount(); ++i)
                sum += cs->getSubspaceWeight(i) * cs->getSubspace(i)->distance(a->as<ob::CompoundState>()->components[i], b->as<ob::CompoundState>()->components[i]);
            if (std::fabs(sum - d) > tolFor(d))
                fail("C06|compound-sum|" + c.name, "compound distance " + vf::jnum(d) + " != weighted sum of component distances " + vf::jnum(sum), rj(ca, cb));
        }
        return d;
    }
};

static void runSpace(const std::string &name, const vf::Args &a, vf::Report &rep)
{
    int pairLevel = 3, tripleLevel = 3;  // (the quick tier used levels 2 / 1 until the cost was measured: level 3 everywhere costs seconds)
    // pairs
    {
        SpaceCfg c = makeSpace(name, pairLevel);
        densify(c, a.thorough() ? 900 : 300);
        Pool P(c);
        Laws L{c, [&](const std::string &k, const std::string &w, const std::string &r) { rep.fail(k, w, r); }};
        size_t n = P.st.size();
        for (size_t i = 0; i < n; ++i)
        {
            if (!c.space->satisfiesBounds(P.st[i]))
            {
                fprintf(stderr, "INTERNAL: lattice state %zu of %s is out of bounds: %s\n", i, name.c_str(), cstr(c.lattice[i]).c_str());
                exit(2);
            }
            for (size_t j = 0; j < n; ++j)
            {
                double d = L.pair(P.st[i], P.st[j], c.lattice[i], c.lattice[j], i == j);
                rep.evaluations++;
                rep.transitions++;
                vf::Hash h;
                h.adds(name);
                h.add(i);
                h.add(j);
                if (i != j)
                    rep.nontrivial.insert(h.h);
                vf::Hash o;
                o.adds(name);
                o.addd(d);
                rep.outcomes.insert(o.h);
            }
        }
        rep.states += n;
        rep.bounds["pair_lattice_" + name] = std::to_string(n);
        if (n >= 2)
            rep.sample(L.rj(c.lattice[0], c.lattice[n - 1]));
        // a second state object with the same coordinates is at distance 0 (identity is about values, not pointers)
        ob::State *dup = c.space->allocState();
        for (size_t i = 0; i < n; ++i)
        {
            setCoords(c.space, dup, c.lattice[i]);
            L.pair(P.st[i], dup, c.lattice[i], c.lattice[i], true);
            rep.evaluations++;
        }
        c.space->freeState(dup);
    }
    // triples
    {
        SpaceCfg c = makeSpace(name, tripleLevel);
        densify(c, a.thorough() ? 440 : 160);
        if (c.space->isMetricSpace())
        {
            Pool P(c);
            size_t n = P.st.size();
            std::vector<double> D(n * n);
            for (size_t i = 0; i < n; ++i)
                for (size_t j = 0; j < n; ++j)
                    D[i * n + j] = c.space->distance(P.st[i], P.st[j]);
            Laws L{c, nullptr};
            for (size_t i = 0; i < n; ++i)
                for (size_t j = 0; j < n; ++j)
                    for (size_t k = 0; k < n; ++k)
                    {
                        double ac = D[i * n + k], ab = D[i * n + j], bc = D[j * n + k];
                        rep.evaluations++;
                        rep.transitions++;
                        if (ac > ab + bc + c.tol * (1 + std::fabs(ac)))
                            rep.fail("C06|triangle|" + name + ((microMotion(c, c.lattice[i], c.lattice[j]) || microMotion(c, c.lattice[j], c.lattice[k]) || microMotion(c, c.lattice[i], c.lattice[k])) ? "|micro-motion-along-heading" : ""),
                                     "isMetricSpace() is true but d(a,c)=" + vf::jnum(ac) + " > d(a,b)+d(b,c)=" + vf::jnum(ab) + "+" + vf::jnum(bc), L.rj(c.lattice[i], c.lattice[j], &c.lattice[k]));
                        if (i != j && j != k && i != k)
                        {
                            if (n > 60)
                                rep.nontrivialCounted++;  // (i,j,k) are distinct by construction
                            else
                            {
                                vf::Hash h;
                                h.adds(name);
                                h.add(i);
                                h.add(j);
                                h.add(k);
                                rep.nontrivial.insert(h.h);
                            }
                        }
                    }
            rep.bounds["triple_lattice_" + name] = std::to_string(n);
            if (n >= 3)
                rep.sample(L.rj(c.lattice[0], c.lattice[n / 2], &c.lattice[n - 1]));
        }
        else
            rep.bounds["triple_lattice_" + name] = "\"not claimed metric\"";
    }
}

int main(int argc, char **argv)
{
    ompl::msg::setLogLevel(ompl::msg::LOG_NONE);
    vf::Harness H;
    H.property = "C06";
    H.jobs = [](const vf::Args &a) {
        auto n = spaceNames(a.thorough());
        for (auto &x : nonMetricWrapperNames())
            n.push_back(x);
        n.push_back("CompoundZeroW");
        n.push_back("CompoundZeroLast");
        for (const char *x : {"ReedsShepp2", "ReedsSheppHalf", "Dubins2Sym"})
            n.push_back(x);
        return n;
    };
    H.run = [](const std::string &job, const vf::Args &a, vf::Report &r) {
        r.maxFailuresPerKey = 1;
        runSpace(job, a, r);
        r.rule = "per space configuration: ALL ordered pairs of a boundary-value lattice (seams, +-1ulp, antipodal, double cover, poles, gluing lines, zero-width and huge bounds) for "
                 "non-negativity, identity, positivity (vs an independent long-double reference separation), extent, symmetry-iff-claimed, compound = weighted sum; ALL ordered triples "
                 "for the triangle law when isMetricSpace(); non-trivial = pairs/triples of distinct lattice points";
        r.assumptions = {"in-bounds states only (documented precondition of distance())",
                         "tolerances: 1e-9(1+|x|) for R^n/SO(2)/time/compounds of them; 4.5e-5 for anything containing SO(3) (library quaternion resolution acos(1-1e-9)); "
                         "2e-3*radius on the sphere (single-precision haversine); 1e-6 for Dubins/Reeds-Shepp",
                         "unbounded time is exempt from the extent law only"};
    };
    H.replay = [](const vf::JV &v) {
        bool failed = false;
        SpaceCfg c = makeSpace(v["space"].s, 0);
        auto rd = [&](const vf::JV &x) {
            Coords r;
            for (auto &e : x.a)
                r.push_back(e.d());
            return r;
        };
        Coords ca = rd(v["a"]), cb = rd(v["b"]);
        ob::State *a = c.space->allocState(), *b = c.space->allocState(), *cc = c.space->allocState();
        setCoords(c.space, a, ca);
        setCoords(c.space, b, cb);
        Laws L{c, [&](const std::string &k, const std::string &w, const std::string &) {
                   printf("%s: %s\n", k.c_str(), w.c_str());
                   failed = true;
               }};
        L.pair(a, b, ca, cb, ca == cb);
        if (v.has("c"))
        {
            Coords c3 = rd(v["c"]);
            setCoords(c.space, cc, c3);
            double ac = c.space->distance(a, cc), ab = c.space->distance(a, b), bc = c.space->distance(b, cc);
            printf("d(a,c)=%.17g d(a,b)=%.17g d(b,c)=%.17g metric=%d\n", ac, ab, bc, (int)c.space->isMetricSpace());
            if (c.space->isMetricSpace() && ac > ab + bc + c.tol * (1 + std::fabs(ac)))
            {
                printf("C06|triangle|%s violated\n", c.name.c_str());
                failed = true;
            }
        }
        return failed;
    };
    return vf::main(argc, argv, H);
}
