// C12 — weighted sampling: E2 history BFS on the real ompl::PDF, canonical state = every row of the private sum tree.
#define _GLIBCXX_SANITIZE_VECTOR 1
#include <ompl/datastructures/PDF.h>
#include "hbfs.hpp"
#include "asanhook.hpp"
#include <algorithm>
#include <cfloat>

using P = ompl::PDF<int>;
// indices 6..9: a second alphabet of tiny weights (exp(-cost)-like values): changes far below any absolute epsilon that still matter
// relative to the total
static const double WEIGHTS[] = {0, 1, 2, 0.1, 0.3, 1e16, 0, 1e-17, 2e-17, 3e-18};

struct Sys
{
    int cap = 5, nW = 6, off = 0;  // weights WEIGHTS[off .. off+nW)
    template <class O>
    std::vector<std::string> variants(O &, const std::string &)
    {
        return {};
    }
    static constexpr bool kModelInCanon = false;  // the rounding allowance depends on the history, not only on the sum tree
    template <class O, class F>
    void checkTransition(O &, const std::vector<std::string> &, F)
    {
    }
    struct Obj
    {
        std::unique_ptr<P> p;
        std::map<int, double> model;  // id -> weight
        int nextId = 0;
        double maxMag = 0;  // largest total weight the history ever reached
        int nops = 0;
        std::string last;
        void noteMag()
        {
            long double t = 0;
            for (auto &m : model)
                t += m.second;
            maxMag = std::max(maxMag, (double)t);
        }
    };
    std::unique_ptr<Obj> make()
    {
        auto o = std::make_unique<Obj>();
        o->p = std::make_unique<P>();
        return o;
    }
    static std::string wstr(double w)
    {
        char b[32];
        snprintf(b, sizeof b, "%.17g", w);
        return b;
    }
    std::vector<std::string> enabled(Obj &o)
    {
        std::vector<std::string> ops;
        int n = o.p->size();
        if (n < cap)
            for (int k = off; k < off + nW; ++k)
                ops.push_back("A " + std::to_string(k));
        for (int i = 0; i < n; ++i)
            ops.push_back("R " + std::to_string(i));
        for (int i = 0; i < n; ++i)
            for (int k = off; k < off + nW; ++k)
                if (o.p->tree_.front()[i] != WEIGHTS[k])
                    ops.push_back("U " + std::to_string(i) + " " + std::to_string(k));
        if (n > 0)
            ops.push_back("C");
        return ops;
    }
    void apply(Obj &o, const std::string &op)
    {
        int a = 0, b = 0;
        sscanf(op.c_str() + 1, "%d %d", &a, &b);
        o.last = op.substr(0, 1);
        ++o.nops;
        switch (op[0])
        {
            case 'A':
                o.p->add(o.nextId, WEIGHTS[a]);
                o.model[o.nextId++] = WEIGHTS[a];
                break;
            case 'R':
            {
                auto *e = o.p->data_[a];
                o.model.erase(e->data_);
                o.p->remove(e);
                break;
            }
            case 'U':
            {
                auto *e = o.p->data_[a];
                o.model[e->data_] = WEIGHTS[b];
                o.noteMag();  // both old and new totals bound the intermediate magnitudes
                o.p->update(e, WEIGHTS[b]);
                break;
            }
            case 'C':
                o.p->clear();
                o.model.clear();
                break;
        }
        o.noteMag();
    }
    std::string canon(Obj &o)
    {
        std::string s;
        for (auto &row : o.p->tree_)
        {
            for (double d : row)
            {
                char b[24];
                uint64_t u;
                memcpy(&u, &d, 8);
                snprintf(b, sizeof b, "%016lx,", (unsigned long)u);
                s += b;
            }
            s += "/";
        }
        return s;
    }
    std::string outcome(Obj &o)
    {
        std::string s;
        for (auto *e : o.p->data_)
            s += wstr(o.p->tree_.front()[e->index_]) + ",";
        return s;
    }
    static const char *opname(const std::string &l)
    {
        switch (l.empty() ? '0' : l[0])
        {
            case 'A': return "add";
            case 'R': return "remove";
            case 'U': return "update";
            case 'C': return "clear";
        }
        return "init";
    }
    void check(Obj &o, const std::vector<std::string> &hist, std::function<void(const std::string &, const std::string &)> fail)
    {
        P &p = *o.p;
        std::string after = std::string("|after=") + opname(o.last);
        long asan0 = vf::asanErrorCount();
        if (p.size() != o.model.size() || p.empty() != o.model.empty())
            fail("C12|size" + after, "size() " + std::to_string(p.size()) + " != surviving elements " + std::to_string(o.model.size()));
        auto &els = p.getElements();
        std::set<int> ids;
        std::vector<double> w;  // weights in the structure's element order
        for (size_t i = 0; i < els.size(); ++i)
        {
            auto *e = els[i];
            if (e->index_ != i)
                fail("C12|handle-index" + after, "element handle at position " + std::to_string(i) + " carries index " + std::to_string(e->index_));
            ids.insert(e->data_);
            auto it = o.model.find(e->data_);
            if (it == o.model.end())
            {
                fail("C12|contents" + after, "structure holds an element that was removed");
                return;
            }
            if (p.getWeight(e) != it->second)
                fail("C12|getWeight" + after, "getWeight " + wstr(p.getWeight(e)) + " != current weight " + wstr(it->second));
            if (p[i] != e->data_)
                fail("C12|index-operator" + after, "operator[] disagrees with getElements()");
            w.push_back(it->second);
        }
        if (ids.size() != o.model.size())
        {
            fail("C12|contents" + after, "elements are not exactly the surviving ones");
            return;
        }
        if (vf::asanErrorCount() != asan0)
            fail("C12|memory|bookkeeping" + after, "AddressSanitizer report while reading size/weights/handles");
        if (w.empty())
            return;
        // cumulative sums from the model, long double
        std::vector<long double> c(w.size());
        long double acc = 0;
        for (size_t i = 0; i < w.size(); ++i)
            c[i] = (acc += w[i]);
        long double T = acc;
        int rows = p.tree_.size();
        long double allow = 4.0L * (o.nops + rows + 2) * (long double)DBL_EPSILON * std::max<long double>(o.maxMag, T);
        std::vector<double> rs = {0.0, ldexp(1.0, -64), 1.0 - ldexp(1.0, -53), 1.0, 0.5};
        if (T > 0)
            for (size_t i = 0; i < w.size(); ++i)
            {
                double b = (double)(c[i] / T);
                double lo = (double)((i ? c[i - 1] : 0) / T);
                for (double r : {b, nextafter(b, 0.0), nextafter(b, 2.0), 0.5 * (lo + b)})
                    if (r >= 0 && r <= 1)
                        rs.push_back(r);
            }
        for (double r : rs)
        {
            long a0 = vf::asanErrorCount();
            int *ref = &p.sample(r);
            bool memerr = vf::asanErrorCount() != a0;
            int idx = -1;
            for (size_t i = 0; i < els.size(); ++i)
                if (&els[i]->data_ == ref)
                    idx = (int)i;
            std::string rk = r == 1.0 ? "r=1" : (r == 0.0 ? "r=0" : "0<r<1");
            if (memerr || idx < 0)
            {
                fail("C12|oob-read|sample|" + rk, "sample(" + wstr(r) + ") " + (memerr ? "reads outside the structure's storage (ASan)" : "returns a reference to no live element") +
                                                     "; weights in element order: " + outcome(o));
                continue;
            }
            if (T == 0)
                continue;  // all weights zero: nothing is proportional to anything
            long double x = (long double)r * T;
            long double lo = idx ? c[idx - 1] : 0, hi = c[idx];
            if (x < lo - allow || x > hi + allow)
                fail("C12|wrong-interval|sample|" + rk, "sample(" + wstr(r) + ") returned element #" + std::to_string(idx) + " whose cumulative interval [" + wstr((double)lo) + "," +
                                                           wstr((double)hi) + "] does not contain r*total=" + wstr((double)x) + " (allowance " + wstr((double)allow) + "); weights " + outcome(o));
            if (w[idx] == 0 && r > 0 && r < 1 && allow < 1e-9 * T)
            {
                // zero-weight element drawn strictly inside (0,1): only acceptable when r*total sits on its boundary within rounding
                if (fabsl(x - hi) > allow)
                    fail("C12|zero-weight-drawn|sample", "sample(" + wstr(r) + ") returned zero-weight element #" + std::to_string(idx) + "; weights " + outcome(o));
            }
        }
    }
    bool nontrivial(Obj &o, const std::vector<std::string> &hist)
    {
        char c = hist.empty() ? 'A' : hist.back()[0];
        return o.p->size() >= 2 && (c == 'R' || c == 'U');
    }
};

static void configure(Sys &s, const std::string &job)
{
    s.off = 0;
    sscanf(job.c_str(), "w%d-c%d-o%d", &s.nW, &s.cap, &s.off);
}

int main(int argc, char **argv)
{
    vf::Harness H;
    H.property = "C12";
    H.jobs = [](const vf::Args &a) {
        // wN = first N weights of {0,1,2,0.1,0.3,1e16}
        if (a.thorough())
            return std::vector<std::string>{"w3-c7", "w5-c5", "w6-c5", "w6-c6", "w4-c6-o6"};
        // w3-c6-o3: the three weights that are NOT exactly representable / of huge ratio, up to 6 elements (sum trees with an odd row above
        // the leaves need >= 5 elements, rounding in the partial sums needs such weights)
        return std::vector<std::string>{"w3-c6", "w5-c4", "w6-c4", "w3-c6-o3", "w4-c5-o6"};
    };
    H.run = [](const std::string &job, const vf::Args &a, vf::Report &r) {
        Sys s;
        configure(s, job);
        vf::HBFS<Sys> bfs(s, r, a);
        bfs.maxDepth = a.thorough() ? 9 : 7;
        bfs.replayExtra = "\"job\":" + vf::jesc(job);
        bfs.run();
        r.rule = "BFS over op histories (add, update, remove, clear; elements addressed by position) on the real PDF; state = bit pattern of "
                 "every row of the private sum tree; in every state sample(r) for r in {0, 2^-64, 1-2^-53, 1, 1/2} + every cumulative boundary "
                 "and its two ulp neighbours + interval midpoints, compared with long-double prefix sums of the model; non-trivial = distinct "
                 "states with >=2 elements entered by a remove or update";
        r.bounds["weights"] = "[0,1,2,0.1,0.3,1e16,0,1e-17,2e-17,3e-18]";
        r.bounds["weights_used"] = std::to_string(s.nW);
        r.bounds["size_cap"] = std::to_string(s.cap);
        r.bounds["max_depth"] = std::to_string(bfs.maxDepth);
        r.bounds["closure"] = bfs.closed ? "true" : "false";
        r.assumptions = {"weights are non-negative finite doubles; r in [0,1]",
                         "rounding allowance 4*(ops+rows+2)*2^-52*(largest total weight the history reached): with the 1e16 weight in the history only memory safety and bookkeeping are decided",
                         "out-of-storage reads are detected by ASan with libstdc++ vector annotations and by checking that sample() returns a reference to a live element"};
    };
    H.replay = [](const vf::JV &v) {
        Sys s;
        configure(s, v["job"].s);
        auto o = s.make();
        std::vector<std::string> hist;
        bool failed = false;
        for (auto &op : v["ops"].a)
        {
            s.apply(*o, op.s);
            hist.push_back(op.s);
            s.check(*o, hist, [&](const std::string &k, const std::string &w) {
                printf("after %zu ops: %s: %s\n", hist.size(), k.c_str(), w.c_str());
                failed = true;
            });
        }
        return failed;
    };
    return vf::main(argc, argv, H);
}
