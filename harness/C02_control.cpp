// C02 — control planners' solutions replay through the propagator. E1 DBE over every random answer, state sample and
// control sample of the real control planners on tiny cell worlds; the oracle re-propagates with its own copy of the system.
#include "worlds.hpp"
#include "guard.hpp"
#include "asanhook.hpp"
#include "notime.hpp"
#include <ompl/control/SpaceInformation.h>
#include <ompl/control/PathControl.h>
#include <ompl/control/SimpleDirectedControlSampler.h>
#include <ompl/control/spaces/RealVectorControlSpace.h>
#include <ompl/control/spaces/DiscreteControlSpace.h>
#include <ompl/control/planners/rrt/RRT.h>
#include <ompl/control/planners/sst/SST.h>
#include <ompl/control/planners/est/EST.h>
#include <ompl/control/planners/kpiece/KPIECE1.h>
#include <ompl/control/planners/pdst/PDST.h>
#include <ompl/control/planners/syclop/SyclopRRT.h>
#include <ompl/control/planners/syclop/SyclopEST.h>
#include <ompl/control/planners/syclop/GridDecomposition.h>

using namespace vw;
namespace oc = ompl::control;

struct CCfg
{
    std::string planner = "RRT", map = "empty4", system = "point";  // point | unicycle
    double stepSize = 0.25;
    int minD = 1, maxD = 3;
    double threshold = 0.4;
    int budget = 60;
    bool counting = false;  // point system on the allocation-counting R^2 (C03's leak / double-free clause)
    bool steer = false;     // the propagator offers steer(): the library then allocates its SteeredControlSampler (point system only)
    int kdir = 1;           // number of candidate controls of the library's SimpleDirectedControlSampler (1 = the default allocation)
    std::string json() const
    {
        return "\"planner\":" + vf::jesc(planner) + ",\"map\":" + vf::jesc(map) + ",\"system\":" + vf::jesc(system) + ",\"stepSize\":" + vf::jnum(stepSize) + ",\"minD\":" + std::to_string(minD) +
               ",\"maxD\":" + std::to_string(maxD) + ",\"threshold\":" + vf::jnum(threshold) + ",\"budget\":" + std::to_string(budget) + (kdir != 1 ? ",\"kdir\":" + std::to_string(kdir) : std::string()) + (steer ? ",\"steer\":true" : "");
    }
    static CCfg fromJson(const vf::JV &v)
    {
        CCfg c;
        c.planner = v["planner"].s;
        c.map = v["map"].s;
        c.system = v["system"].s;
        c.stepSize = v["stepSize"].d();
        c.minD = v["minD"].i();
        c.maxD = v["maxD"].i();
        c.threshold = v["threshold"].d();
        c.budget = v["budget"].i();
        if (v.has("kdir"))
            c.kdir = v["kdir"].i();
        if (v.has("steer"))
            c.steer = v["steer"].b;
        return c;
    }
};

// the system, written twice on purpose: once for the library (propagator), once for the oracle (step)
static void stepPoint(double &x, double &y, double vx, double vy, double dt)
{
    x += vx * dt;
    y += vy * dt;
}
static void stepUnicycle(double &x, double &y, double &th, double v, double w, double dt)
{
    x += v * std::cos(th) * dt;
    y += v * std::sin(th) * dt;
    th += w * dt;
    // wrap into [-pi, pi)
    th = std::fmod(th, 2 * M_PI);
    if (th < -M_PI)
        th += 2 * M_PI;
    else if (th >= M_PI)
        th -= 2 * M_PI;
}

// control sampler through the oracle: a small discrete control set incl. the bounds
struct CtlSampler : oc::ControlSampler
{
    std::vector<std::array<double, 2>> set;
    CtlSampler(const oc::ControlSpace *cs, bool unicycle) : oc::ControlSampler(cs)
    {
        if (unicycle)
            for (double v : {-0.5, 0.3, 1.0})
                for (double w : {-1.0, 0.0, 0.7, 1.0})
                    set.push_back({v, w});
        else
            for (double vx : {-1.0, 0.0, 0.6, 1.0})
                for (double vy : {-1.0, 0.0, 0.6, 1.0})
                    set.push_back({vx, vy});
    }
    void sample(oc::Control *c) override
    {
        auto *o = static_cast<vc::Oracle *>(ompl::verif::rngOracle());
        int i = o->pickIndex(vc::CONTROL, (int)set.size());
        auto *v = c->as<oc::RealVectorControlSpace::ControlType>()->values;
        v[0] = set[i][0];
        v[1] = set[i][1];
    }
};

struct CProblem
{
    CCfg cfg;
    const Map &map;
    Lattice lat;
    ob::StateSpacePtr space;
    std::shared_ptr<oc::RealVectorControlSpace> cspace;
    std::shared_ptr<oc::SpaceInformation> si;
    ob::ProblemDefinitionPtr pdef;
    ob::PlannerPtr planner;
    bool unicycle;
    long evals = 0;
    bool isValid(const ob::State *s) const
    {
        double x, y;
        xy(space.get(), s, x, y);
        if (x < 0 || y < 0 || x > map.W() || y > map.H())
            return false;
        return map.free((int)std::floor(x), (int)std::floor(y));
    }
    CProblem(const CCfg &c) : cfg(c), map(mapByName(c.map)), lat(map, c.system == "unicycle"), unicycle(c.system == "unicycle")
    {
        ob::RealVectorBounds b(2);
        b.setLow(0);
        b.setHigh(0, map.W());
        b.setHigh(1, map.H());
        if (unicycle)
        {
            auto r = std::make_shared<ob::SE2StateSpace>();
            r->setBounds(b);
            space = r;
        }
        else
        {
            std::shared_ptr<ob::RealVectorStateSpace> r;
            if (c.counting)
                r = std::make_shared<vw::CountingR2>();
            else
                r = std::make_shared<ob::RealVectorStateSpace>(2);
            r->setBounds(b);
            space = r;
        }
        const Lattice *L = &lat;
        space->setStateSamplerAllocator([L](const ob::StateSpace *sp) { return std::make_shared<LatSampler>(sp, *L); });
        cspace = std::make_shared<oc::RealVectorControlSpace>(space, 2);
        ob::RealVectorBounds cb(2);
        if (unicycle)
        {
            cb.setLow(0, -0.5);
            cb.setHigh(0, 1.0);
            cb.setLow(1, -1.0);
            cb.setHigh(1, 1.0);
        }
        else
        {
            cb.setLow(-1);
            cb.setHigh(1);
        }
        cspace->setBounds(cb);
        bool uni = unicycle;
        cspace->setControlSamplerAllocator([uni](const oc::ControlSpace *cs) { return std::make_shared<CtlSampler>(cs, uni); });
        si = std::make_shared<oc::SpaceInformation>(space, cspace);
        si->setStateValidityChecker([this](const ob::State *s) { return isValid(s); });
        si->setStatePropagator([uni](const ob::State *from, const oc::Control *c, double dt, ob::State *to) {
            const double *u = c->as<oc::RealVectorControlSpace::ControlType>()->values;
            if (uni)
            {
                auto *f = from->as<ob::SE2StateSpace::StateType>();
                double x = f->getX(), y = f->getY(), th = f->getYaw();
                x += u[0] * std::cos(th) * dt;
                y += u[0] * std::sin(th) * dt;
                th += u[1] * dt;
                th = std::fmod(th, 2 * M_PI);
                if (th < -M_PI)
                    th += 2 * M_PI;
                else if (th >= M_PI)
                    th -= 2 * M_PI;
                auto *t = to->as<ob::SE2StateSpace::StateType>();
                t->setXY(x, y);
                t->setYaw(th);
            }
            else
            {
                const double *f = from->as<ob::RealVectorStateSpace::StateType>()->values;
                double x = f[0] + u[0] * dt, y = f[1] + u[1] * dt;
                double *t = to->as<ob::RealVectorStateSpace::StateType>()->values;
                t[0] = x;
                t[1] = y;
            }
        });
        if (c.kdir > 1)
        {
            // the documented k-control mode: the library's own directed sampler picks the best of k propagated candidates
            int k = c.kdir;
            si->setDirectedControlSamplerAllocator([k](const oc::SpaceInformation *s) { return std::make_shared<oc::SimpleDirectedControlSampler>(s, k); });
        }
        if (c.steer && !uni)
        {
            // same dynamics as the lambda above plus a steering function: straight at the target with the largest admissible speed,
            // for a whole number of steps within the duration bounds (the target is overshot or not reached otherwise: both are fine)
            struct SteerProp : oc::StatePropagator
            {
                double step;
                int minD, maxD;
                SteerProp(oc::SpaceInformation *si, double st, int mn, int mx) : oc::StatePropagator(si), step(st), minD(mn), maxD(mx)
                {
                }
                void propagate(const ob::State *from, const oc::Control *c, double dt, ob::State *to) const override
                {
                    const double *u = c->as<oc::RealVectorControlSpace::ControlType>()->values;
                    const double *f = from->as<ob::RealVectorStateSpace::StateType>()->values;
                    double x = f[0] + u[0] * dt, y = f[1] + u[1] * dt;
                    double *t = to->as<ob::RealVectorStateSpace::StateType>()->values;
                    t[0] = x;
                    t[1] = y;
                }
                bool canSteer() const override
                {
                    return true;
                }
                bool steer(const ob::State *from, const ob::State *to, oc::Control *result, double &duration) const override
                {
                    const double *f = from->as<ob::RealVectorStateSpace::StateType>()->values;
                    const double *t = to->as<ob::RealVectorStateSpace::StateType>()->values;
                    double dx = t[0] - f[0], dy = t[1] - f[1];
                    double m = std::max(std::fabs(dx), std::fabs(dy));
                    if (m == 0)
                        return false;
                    int steps = (int)std::ceil(m / step);
                    steps = std::max(minD, std::min(maxD, steps));
                    duration = steps * step;
                    double *u = result->as<oc::RealVectorControlSpace::ControlType>()->values;
                    u[0] = std::max(-1.0, std::min(1.0, dx / duration));
                    u[1] = std::max(-1.0, std::min(1.0, dy / duration));
                    return true;
                }
            };
            si->setStatePropagator(std::make_shared<SteerProp>(si.get(), c.stepSize, c.minD, c.maxD));
        }
        si->setPropagationStepSize(c.stepSize);
        si->setMinMaxControlDuration(c.minD, c.maxD);
        si->setStateValidityCheckingResolution(0.02);
        si->setup();
        pdef = std::make_shared<ob::ProblemDefinition>(si);
        ob::ScopedState<> s(space), g(space);
        setXY(space.get(), s.get(), map.sx + 0.263, map.sy + 0.257, 0.3);
        setXY(space.get(), g.get(), map.gx + 0.763, map.gy + 0.757, 1.9);
        pdef->addStartState(s);
        if (unicycle)
        {
            // goal on position only
            struct PosGoal : ob::GoalRegion
            {
                double gx, gy;
                PosGoal(const ob::SpaceInformationPtr &si, double x, double y) : ob::GoalRegion(si), gx(x), gy(y)
                {
                }
                double distanceGoal(const ob::State *st) const override
                {
                    auto *e = st->as<ob::SE2StateSpace::StateType>();
                    return std::hypot(e->getX() - gx, e->getY() - gy);
                }
            };
            auto gr = std::make_shared<PosGoal>(si, map.gx + 0.763, map.gy + 0.757);
            gr->setThreshold(c.threshold);
            pdef->setGoal(gr);
        }
        else
            pdef->setGoalState(g, c.threshold);
        const std::string &p = c.planner;
        if (p == "RRT")
            planner = std::make_shared<oc::RRT>(si);
        else if (p == "RRTintermediate")
        {
            auto r = std::make_shared<oc::RRT>(si);
            r->setIntermediateStates(true);
            planner = r;
        }
        else if (p == "SST")
            planner = std::make_shared<oc::SST>(si);
        else if (p == "EST")
            planner = std::make_shared<oc::EST>(si);
        else if (p == "KPIECE1")
            planner = std::make_shared<oc::KPIECE1>(si);
        else if (p == "PDST")
            planner = std::make_shared<oc::PDST>(si);
        else
        {
            struct Decomp : oc::GridDecomposition
            {
                bool uni;
                Decomp(int len, const ob::RealVectorBounds &b, bool u) : oc::GridDecomposition(len, 2, b), uni(u)
                {
                }
                void project(const ob::State *s, std::vector<double> &coord) const override
                {
                    coord.resize(2);
                    if (uni)
                    {
                        coord[0] = s->as<ob::SE2StateSpace::StateType>()->getX();
                        coord[1] = s->as<ob::SE2StateSpace::StateType>()->getY();
                    }
                    else
                    {
                        coord[0] = s->as<ob::RealVectorStateSpace::StateType>()->values[0];
                        coord[1] = s->as<ob::RealVectorStateSpace::StateType>()->values[1];
                    }
                }
                void sampleFullState(const ob::StateSamplerPtr &sampler, const std::vector<double> &coord, ob::State *s) const override
                {
                    sampler->sampleUniform(s);
                    if (uni)
                        s->as<ob::SE2StateSpace::StateType>()->setXY(coord[0], coord[1]);
                    else
                    {
                        s->as<ob::RealVectorStateSpace::StateType>()->values[0] = coord[0];
                        s->as<ob::RealVectorStateSpace::StateType>()->values[1] = coord[1];
                    }
                }
            };
            auto d = std::make_shared<Decomp>(2, b, unicycle);
            std::shared_ptr<oc::Syclop> sy;
            if (p == "SyclopRRT")
                sy = std::make_shared<oc::SyclopRRT>(si, d);
            else
                sy = std::make_shared<oc::SyclopEST>(si, d);
            sy->setNumFreeVolumeSamples(16);  // default 100000: the free-volume estimate would swamp the explored choice points
            planner = sy;
        }
        planner->setProblemDefinition(pdef);
        planner->setup();
    }
    ob::PlannerStatus solve(int budget)
    {
        long calls = 0;
        ob::PlannerTerminationCondition ptc([&] { return ++calls > budget; });
        auto st = planner->solve(ptc);
        evals = calls;
        return st;
    }
};

struct Exec
{
    CCfg cfg;
    std::map<size_t, int> dev;
    std::string json() const
    {
        return "{" + cfg.json() + ",\"dev\":" + vc::devJson(dev) + "}";
    }
};

// every reported solution of `pd`: counts, start, control bounds, whole-step durations, step-by-step re-propagation, goal flag
static void checkPaths(CProblem *P, const CCfg &cfg, ob::ProblemDefinition *pd, const std::function<void(const std::string &, const std::string &)> &fail, vf::Hash &obs)
{
    const std::string &pl = cfg.planner;
    auto &sp = P->space;
    for (auto &sol : pd->getSolutions())
    {
        auto *path = dynamic_cast<oc::PathControl *>(sol.path_.get());
        if (!path)
        {
            fail("C02|not-a-control-path|" + pl, "reported solution is not a PathControl");
            continue;
        }
        size_t n = path->getStateCount();
        if (n == 0)
        {
            fail("C02|empty-path|" + pl, "empty solution path");
            continue;
        }
        if (path->getControlCount() != n - 1 || path->getControlDurations().size() != n - 1)
        {
            fail("C02|counts|" + pl, std::to_string(n) + " states but " + std::to_string(path->getControlCount()) + " controls / " + std::to_string(path->getControlDurations().size()) + " durations");
            continue;
        }
        if (!sp->equalStates(path->getState(0), pd->getStartState(0)) || !P->isValid(path->getState(0)))
            fail("C02|not-at-start|" + pl, "path does not start at the (valid) start state");
        auto &cb = P->cspace->getBounds();
        for (size_t i = 0; i + 1 < n; ++i)
        {
            const double *u = path->getControl(i)->as<oc::RealVectorControlSpace::ControlType>()->values;
            double dur = path->getControlDuration(i);
            for (int k = 0; k < 2; ++k)
                if (u[k] < cb.low[k] - 1e-12 || u[k] > cb.high[k] + 1e-12)
                    fail("C02|control-out-of-bounds|" + pl, "control " + std::to_string(i) + " component " + std::to_string(k) + " = " + vf::jnum(u[k]) + " outside [" + vf::jnum(cb.low[k]) + "," + vf::jnum(cb.high[k]) + "]");
            double stepsD = dur / cfg.stepSize;
            long steps = std::lround(stepsD);
            if (std::fabs(stepsD - steps) > 1e-9 || steps < 0)
            {
                fail("C02|duration-not-whole-steps|" + pl, "duration " + vf::jnum(dur) + " of segment " + std::to_string(i) + " is not a whole number of propagation steps of " + vf::jnum(cfg.stepSize));
                continue;
            }
            // replay with the oracle's own copy of the system
            double x, y, th = 0;
            xy(sp.get(), path->getState(i), x, y);
            if (P->unicycle)
                th = path->getState(i)->as<ob::SE2StateSpace::StateType>()->getYaw();
            ob::State *t = sp->allocState();
            bool ok = true;
            for (long s = 0; s < steps; ++s)
            {
                if (P->unicycle)
                    stepUnicycle(x, y, th, u[0], u[1], cfg.stepSize);
                else
                    stepPoint(x, y, u[0], u[1], cfg.stepSize);
                setXY(sp.get(), t, x, y, th);
                if (!sp->satisfiesBounds(t) || !P->isValid(t))
                {
                    fail("C02|invalid-propagation-step|" + pl, "replaying control " + std::to_string(i) + ", propagation step " + std::to_string(s + 1) + " of " + std::to_string(steps) + " lands on an invalid state (" +
                                                                   vf::jnum(x) + "," + vf::jnum(y) + ")");
                    ok = false;
                    break;
                }
            }
            if (ok)
            {
                double nx, ny;
                xy(sp.get(), path->getState(i + 1), nx, ny);
                double nth = P->unicycle ? path->getState(i + 1)->as<ob::SE2StateSpace::StateType>()->getYaw() : 0;
                double dth = std::fabs(nth - th);
                dth = std::min(dth, 2 * M_PI - dth);
                if (std::fabs(nx - x) > 1e-9 || std::fabs(ny - y) > 1e-9 || (P->unicycle && dth > 1e-9))
                    fail("C02|replay-mismatch|" + pl, "applying control " + std::to_string(i) + " for " + std::to_string(steps) + " step(s) gives (" + vf::jnum(x) + "," + vf::jnum(y) + ") but the path's next state is (" +
                                                          vf::jnum(nx) + "," + vf::jnum(ny) + ")");
            }
            sp->freeState(t);
            obs.addd(u[0]);
            obs.addd(u[1]);
            obs.addd(dur);
        }
        const ob::State *last = path->getState(n - 1);
        if (!sol.approximate_ && !pd->getGoal()->isSatisfied(last))
            fail("C02|exact-not-in-goal|" + pl, "solution not flagged approximate ends outside the goal region");
        if (sol.approximate_)
            if (auto *gr = dynamic_cast<ob::GoalRegion *>(pd->getGoal().get()))
                if (std::fabs(gr->distanceGoal(last) - sol.difference_) > gr->getThreshold() + 1e-9)
                    fail("C02|approx-difference|" + pl, "approximate solution reports difference " + vf::jnum(sol.difference_) + " but its last state is " + vf::jnum(gr->distanceGoal(last)) + " from the goal");
        obs.add(sol.approximate_);
    }
}

static std::vector<vc::Point> execute(const Exec &e, const std::function<void(const std::string &, const std::string &)> &fail, uint64_t *obsOut = nullptr, long *evals = nullptr, int *solved = nullptr)
{
    const std::string &pl = e.cfg.planner;
    vc::Oracle so;
    so.salt = 77;
    std::unique_ptr<CProblem> P;
    {
        vc::Install i(so);
        P = std::make_unique<CProblem>(e.cfg);
    }
    vc::Oracle o;
    o.dev = e.dev;
    o.horizon = 400000;
    ob::PlannerStatus st;
    {
        vc::Install inst(o);
        try
        {
            st = P->solve(e.cfg.budget);
        }
        catch (vc::Horizon &)
        {
            fail("C02|draw-horizon|" + pl, "more than 400000 random draws");
            return o.trace;
        }
        catch (ompl::Exception &ex)
        {
            if (P->pdef->getSolutionCount())
                fail("C02|exception-after-adding-path|" + pl, ex.what());
            return o.trace;
        }
    }
    auto &sp = P->space;
    vf::Hash obs;
    obs.add((int)(ob::PlannerStatus::StatusType)st);
    bool solStatus = (bool)st;
    // (status/flag coherence of control planners is C03's clause, not part of this property's statement)
    checkPaths(P.get(), e.cfg, P->pdef.get(), fail, obs);
    if (obsOut)
        *obsOut = obs.h;
    if (evals)
        *evals = P->evals;
    if (solved)
        *solved = solStatus;
    P.reset();
    return o.trace;
}

static std::vector<CCfg> configs(const std::string &planner, bool thorough)
{
    std::vector<CCfg> v;
    auto add = [&](const std::string &map, const std::string &sys, double step, int mn, int mx, int budget) {
        CCfg c;
        c.planner = planner;
        c.map = map;
        c.system = sys;
        c.stepSize = step;
        c.minD = mn;
        c.maxD = mx;
        c.budget = budget;
        v.push_back(c);
    };
    if (planner.substr(0, 6) == "Syclop")
    {
        // one Syclop iteration makes thousands of random draws (lead computation): small budgets, fewer configurations
        add("empty4", "point", 0.25, 1, 3, 40);
        add("wallgap4", "point", 0.25, 1, 3, 60);
        add("wallgap4", "unicycle", 0.25, 1, 3, 60);
        add("diag4", "point", 1.0, 1, 1, 40);
        if (planner == "SyclopRRT")
        {
            add("wallgap4", "point", 0.25, 1, 3, 60);
            v.back().kdir = 3;
            add("wallgap4", "point", 0.25, 1, 3, 60);
            v.back().steer = true;
        }
        if (thorough)
            add("maze6", "point", 0.25, 2, 5, 80);
        return v;
    }
    add("empty4", "point", 0.25, 1, 3, 60);
    add("wallgap4", "point", 0.25, 1, 3, 80);
    add("diag4", "point", 1.0, 1, 1, 60);  // long single steps next to a diagonal wall
    add("maze6", "point", 0.25, 2, 5, 80);
    add("wallgap4", "unicycle", 0.25, 1, 3, 80);
    add("empty4", "unicycle", 0.25, 2, 5, 60);
    add("startobst4", "point", 0.25, 1, 3, 30);
    if (planner != "SST" && planner != "KPIECE1")  // these two never ask the directed sampler
    {
        // k-control mode of the library's directed sampler: candidates truncated by obstacles compete with complete ones
        add("wallgap4", "point", 0.25, 1, 3, 80);
        v.back().kdir = 3;
        add("maze6", "point", 0.25, 2, 5, 80);
        v.back().kdir = 2;
        add("wallgap4", "unicycle", 0.25, 1, 3, 80);
        v.back().kdir = 3;
        // steering propagator: the library's SteeredControlSampler drives straight at the sampled state, into the walls
        add("wallgap4", "point", 0.25, 1, 3, 80);
        v.back().steer = true;
        add("maze6", "point", 0.25, 2, 5, 80);
        v.back().steer = true;
        add("diag4", "point", 1.0, 1, 2, 60);
        v.back().steer = true;
    }
    if (thorough)
    {
        add("utrap4", "point", 0.25, 1, 3, 120);
        add("maze6", "unicycle", 0.25, 1, 3, 120);
        add("corridor6", "point", 1.0, 1, 3, 120);
    }
    return v;
}

// ---- discrete control space with a NON-ZERO lower bound: controls are the integers -2..2 (four unit moves and a diagonal crawl); the
// library's own DiscreteControlSampler draws them (through hook H1). Same clauses as above, checked by a second small oracle.
static void discreteMove(int k, double &dx, double &dy)
{
    switch (k)
    {
        case -2: dx = -1, dy = 0; break;
        case -1: dx = 0, dy = -1; break;
        case 0: dx = 0.5, dy = 0.5; break;
        case 1: dx = 0, dy = 1; break;
        default: dx = 1, dy = 0; break;
    }
}
static std::vector<vc::Point> executeDiscrete(const std::string &planner, const std::string &mapName, const std::map<size_t, int> &dev,
                                              const std::function<void(const std::string &, const std::string &)> &fail, uint64_t *obsOut, long *evalsOut)
{
    const Map &map = mapByName(mapName);
    Lattice lat(map, false);
    auto space = std::make_shared<ob::RealVectorStateSpace>(2);
    ob::RealVectorBounds b(2);
    b.setLow(0);
    b.setHigh(0, map.W());
    b.setHigh(1, map.H());
    space->setBounds(b);
    const Lattice *L = &lat;
    space->setStateSamplerAllocator([L](const ob::StateSpace *sp) { return std::make_shared<LatSampler>(sp, *L); });
    const int LO = -2, HI = 2;
    auto cspace = std::make_shared<oc::DiscreteControlSpace>(space, LO, HI);
    auto si = std::make_shared<oc::SpaceInformation>(space, cspace);
    auto valid = [&map](double x, double y) { return !(x < 0 || y < 0 || x > map.W() || y > map.H()) && map.free((int)std::floor(x), (int)std::floor(y)); };
    si->setStateValidityChecker([valid](const ob::State *s) {
        auto *v = s->as<ob::RealVectorStateSpace::StateType>()->values;
        return valid(v[0], v[1]);
    });
    si->setStatePropagator([](const ob::State *from, const oc::Control *c, double dt, ob::State *to) {
        double dx, dy;
        discreteMove(c->as<oc::DiscreteControlSpace::ControlType>()->value, dx, dy);
        const double *f = from->as<ob::RealVectorStateSpace::StateType>()->values;
        double x = f[0] + dx * dt, y = f[1] + dy * dt;
        double *t = to->as<ob::RealVectorStateSpace::StateType>()->values;
        t[0] = x;
        t[1] = y;
    });
    const double step = 0.25;
    si->setPropagationStepSize(step);
    si->setMinMaxControlDuration(1, 3);
    si->setStateValidityCheckingResolution(0.02);
    vc::Oracle setupOracle;
    setupOracle.salt = 77;
    ob::ProblemDefinitionPtr pdef;
    ob::PlannerPtr pl;
    {
        vc::Install i(setupOracle);
        si->setup();
        pdef = std::make_shared<ob::ProblemDefinition>(si);
        ob::ScopedState<> s(space), g(space);
        s[0] = map.sx + 0.263;
        s[1] = map.sy + 0.257;
        g[0] = map.gx + 0.763;
        g[1] = map.gy + 0.757;
        pdef->addStartState(s);
        pdef->setGoalState(g, 0.4);
        if (planner == "RRT")
            pl = std::make_shared<oc::RRT>(si);
        else if (planner == "EST")
            pl = std::make_shared<oc::EST>(si);
        else if (planner == "KPIECE1")
            pl = std::make_shared<oc::KPIECE1>(si);
        else if (planner == "SST")
            pl = std::make_shared<oc::SST>(si);
        else
            pl = std::make_shared<oc::PDST>(si);
        pl->setProblemDefinition(pdef);
        pl->setup();
    }
    vc::Oracle o;
    o.dev = dev;
    o.horizon = 400000;
    long calls = 0;
    {
        vc::Install i(o);
        try
        {
            ob::PlannerTerminationCondition ptc([&] { return ++calls > 70; });
            pl->solve(ptc);
        }
        catch (vc::Horizon &)
        {
            fail("C02|draw-horizon|discrete|" + planner, "more than 400000 random draws in one solve()");
        }
    }
    vf::Hash obs;
    for (auto &sol : pdef->getSolutions())
    {
        auto *path = dynamic_cast<oc::PathControl *>(sol.path_.get());
        if (!path || path->getStateCount() == 0 || path->getControlCount() + 1 != path->getStateCount())
        {
            fail("C02|counts|discrete|" + planner, "not a control path with n states and n-1 controls");
            continue;
        }
        size_t n = path->getStateCount();
        const double *s0 = path->getState(0)->as<ob::RealVectorStateSpace::StateType>()->values;
        if (!space->equalStates(path->getState(0), pdef->getStartState(0)) || !valid(s0[0], s0[1]))
            fail("C02|not-at-start|discrete|" + planner, "path does not start at the (valid) start state");
        for (size_t i = 0; i + 1 < n; ++i)
        {
            int k = path->getControl(i)->as<oc::DiscreteControlSpace::ControlType>()->value;
            double dur = path->getControlDuration(i);
            obs.add(k);
            obs.addd(dur);
            if (k < LO || k > HI)
            {
                fail("C02|control-out-of-bounds|discrete|" + planner, "control " + std::to_string(i) + " has the value " + std::to_string(k) + " outside [" + std::to_string(LO) + "," + std::to_string(HI) + "]");
                continue;
            }
            double stepsD = dur / step;
            long steps = std::lround(stepsD);
            if (std::fabs(stepsD - steps) > 1e-9 || steps < 1)
                fail("C02|duration-not-whole-steps|discrete|" + planner, "duration " + vf::jnum(dur) + " is not a positive whole number of steps of " + vf::jnum(step));
            const double *f = path->getState(i)->as<ob::RealVectorStateSpace::StateType>()->values;
            double x = f[0], y = f[1], dx, dy;
            discreteMove(k, dx, dy);
            for (long q = 0; q < steps; ++q)
            {
                x += dx * step;
                y += dy * step;
                if (!valid(x, y))
                {
                    fail("C02|invalid-propagation-step|discrete|" + planner, "replaying control " + std::to_string(i) + ", step " + std::to_string(q + 1) + " of " + std::to_string(steps) + " lands on an invalid state");
                    break;
                }
            }
            const double *t = path->getState(i + 1)->as<ob::RealVectorStateSpace::StateType>()->values;
            if (std::fabs(t[0] - x) > 1e-9 || std::fabs(t[1] - y) > 1e-9)
                fail("C02|replay-mismatch|discrete|" + planner, "replaying control " + std::to_string(i) + " ends at (" + vf::jnum(x) + "," + vf::jnum(y) + "), the path says (" + vf::jnum(t[0]) + "," + vf::jnum(t[1]) + ")");
        }
        bool inGoal = pdef->getGoal()->isSatisfied(path->getState(n - 1));
        if (!sol.approximate_ && !inGoal)
            fail("C02|exact-not-in-goal|discrete|" + planner, "solution not flagged approximate ends outside the goal region");
    }
    if (obsOut)
        *obsOut = obs.h;
    if (evalsOut)
        *evalsOut = calls;
    pl.reset();
    return o.trace;
}
static void runDiscrete(const std::string &planner, const vf::Args &a, vf::Report &rep)
{
    for (const char *map : {"empty4", "wallgap4"})
    {
        vg::Group G;
        G.onChildStart = [] { vf::virtualSleep() = true; };
        std::string m = map;
        auto body = [&](vf::Report &r) {
            auto run = [&](const std::map<size_t, int> &dev) {
                std::string ej = "{\"discrete\":true,\"planner\":" + vf::jesc(planner) + ",\"map\":" + vf::jesc(m) + ",\"dev\":" + vc::devJson(dev) + "}";
                G.announce(ej);
                alarm(10);
                uint64_t obs = 0;
                long evals = 0;
                auto tr = executeDiscrete(planner, m, dev, [&](const std::string &k, const std::string &w) { r.fail(k, w, ej); }, &obs, &evals);
                alarm(0);
                r.evaluations++;
                r.transitions += evals;
                r.outcomes.insert(obs);
                vf::Hash h;
                h.adds(ej);
                if (!dev.empty())
                    r.nontrivial.insert(h.h);
                G.sh->done++;
                return tr;
            };
            vc::DBE dbe;
            dbe.D = a.thorough() ? 2 : 1;
            dbe.N = a.thorough() ? 40 : 30;
            dbe.expired = [&] { return a.expired(); };
            dbe.explore(run);
            r.states++;
        };
        vg::Outcome out = G.run(body, rep, 300);
        if (!out.clean)
        {
            rep.exhaustive = false;
            rep.caps.push_back("child died in the discrete-control job of " + planner + " / " + m + ": " + out.current);
        }
    }
}

#ifndef C02_NO_MAIN
int main(int argc, char **argv)
{
    ompl::msg::setLogLevel(ompl::msg::LOG_NONE);
    vf::Harness H;
    H.property = "C02";
    H.jobs = [](const vf::Args &) { return std::vector<std::string>{"RRT", "RRTintermediate", "SST", "EST", "KPIECE1", "PDST", "SyclopRRT", "SyclopEST", "discrete-RRT", "discrete-EST", "discrete-KPIECE1", "discrete-PDST", "discrete-SST"}; };
    H.run = [](const std::string &job, const vf::Args &a, vf::Report &rep) {
        if (job.substr(0, 9) == "discrete-")
        {
            runDiscrete(job.substr(9), a, rep);
            rep.rule = "discrete control space {-2..2} (lower bound != 0) sampled by the library's DiscreteControlSampler: every execution with <= D deviations among the first N choice points; "
                       "controls in bounds, whole-step durations, step-by-step replay through an independent copy of the system";
            return;
        }
        const std::string planner = job;
        int jobCrashes = 0;
        for (auto &cfg : configs(planner, a.thorough()))
        {
            if (a.expired() || jobCrashes >= 3)
            {
                rep.exhaustive = false;
                rep.caps.push_back("deadline or crash cap: configurations of " + planner + " left unexplored");
                break;
            }
            std::set<std::string> skip;
            for (;;)
            {
                vg::Group G;
                G.onChildStart = [] { vf::virtualSleep() = true; };
                auto body = [&](vf::Report &r) {
                    auto run = [&](const std::map<size_t, int> &dev) -> std::vector<vc::Point> {
                        Exec e{cfg, dev};
                        std::string ej = e.json();
                        if (skip.count(ej))
                            return {};
                        G.announce(ej);
                        alarm(6);
                        uint64_t obs = 0;
                        long evals = 0;
                        int solved = 0;
                        long a0 = vf::asanErrorCount();
                        auto tr = execute(e, [&](const std::string &k, const std::string &w) { r.fail(k, w, ej); }, &obs, &evals, &solved);
                        if (vf::asanErrorCount() != a0)
                            r.fail("C02|memory|" + planner, "AddressSanitizer report during solve()/teardown", ej);
                        alarm(0);
                        r.evaluations++;
                        r.transitions += evals;
                        r.outcomes.insert(obs);
                        r.metrics["solved_executions"] += solved;
                        r.metrics["max_choice_points"] = std::max<double>(r.metrics["max_choice_points"], tr.size());
                        vf::Hash h;
                        h.adds(ej);
                        if (!dev.empty())
                            r.nontrivial.insert(h.h);
                        if (r.samples.size() < 2 && !dev.empty() && (r.evaluations % 173) == 0)
                            r.sample(ej);
                        return tr;
                    };
                    {
                        Exec e{cfg, {}};
                        if (!skip.count(e.json()))
                        {
                            uint64_t o1 = 0, o2 = 0;
                            G.announce(e.json());
                            alarm(12);
                            execute(e, [](const std::string &, const std::string &) {}, &o1);
                            void *pad = malloc(4444);
                            execute(e, [](const std::string &, const std::string &) {}, &o2);
                            free(pad);
                            alarm(0);
                            if (o1 != o2)
                                r.fail("C02|nondeterministic-replay|" + planner, "same answer stream, different result", e.json());
                            r.validated++;
                        }
                    }
                    vc::DBE dbe;
                    dbe.D = a.thorough() ? 2 : 1;
                    dbe.N = planner.substr(0, 6) == "Syclop" ? 70 : (a.thorough() ? 50 : 40);
                    dbe.expired = [&] { return a.expired(); };
                    dbe.explore(run);
                    vc::Product prod;
                    prod.depth = a.thorough() ? 3 : 2;
                    prod.kinds = [](unsigned char k) { return k == vc::CONTROL || k == vc::STATE; };
                    prod.expired = [&] { return a.expired(); };
                    prod.explore(run);
                    if (dbe.cut || prod.cut)
                    {
                        r.exhaustive = false;
                        r.caps.push_back("deadline inside " + planner);
                    }
                    r.states++;
                };
                vg::Outcome out = G.run(body, rep, 300);
                if (out.clean)
                    break;
                if (out.current.empty())
                {
                    rep.exhaustive = false;
                    rep.caps.push_back("child died before announcing an execution in " + planner);
                    break;
                }
                std::string cur = out.current;
                vg::Group G2;
                G2.onChildStart = [] { vf::virtualSleep() = true; };
                vf::Report scratch;
                vg::Outcome single = G2.run(
                    [&](vf::Report &) {
                        vf::JParser jp(cur);
                        vf::JV v = jp.parse();
                        Exec e{CCfg::fromJson(v), {}};
                        for (auto &d : v["dev"].a)
                            e.dev[(size_t)d[0].i()] = (int)d[1].i();
                        alarm(60);
                        execute(e, [](const std::string &, const std::string &) {});
                        alarm(0);
                    },
                    scratch, 80);
                if (!single.clean)
                    rep.fail(single.timeout || single.sig == SIGALRM ? "C02|hang|" + planner : "C02|crash|" + planner + "|signal-" + std::to_string(single.sig), "solve()/teardown crashed or did not return", cur);
                else
                    rep.metrics["slow_executions"] += 1;
                skip.insert(cur);
                if (!single.clean && ++jobCrashes >= 3)
                    break;
            }
        }
        rep.rule = "8 control planners x configurations (point and unicycle systems with asymmetric control bounds, step sizes, min/max durations, maps incl. diagonal corner and obstacle on start): "
                   "every execution with <= D deviations among the first N choice points (primitive random draws, state samples, control samples) + full product over the first control/state "
                   "samples; oracle = re-propagation of every (state, control, duration) with an independent copy of the system, step by step; states = configurations, transitions = "
                   "termination-condition evaluations, non-trivial = executions with a non-default answer";
        rep.assumptions = {"durations outside [min,max]*step are not an error (intermediate-state and cell-splitting planners emit 1-step pieces)",
                           "replayed states must match within 1e-9 (they match bitwise in practice)", "controls are drawn from a 12/16-element set that includes the bounds"};
    };
    H.replay = [](const vf::JV &v) {
        if (v.has("discrete"))
        {
            std::map<size_t, int> dev;
            for (auto &d : v["dev"].a)
                dev[(size_t)d[0].i()] = (int)d[1].i();
            bool failed = false;
            vf::virtualSleep() = true;
            alarm(60);
            executeDiscrete(v["planner"].s, v["map"].s, dev, [&](const std::string &k, const std::string &w) {
                printf("%s: %s\n", k.c_str(), w.c_str());
                failed = true;
            }, nullptr, nullptr);
            return failed;
        }
        Exec e{CCfg::fromJson(v), {}};
        for (auto &d : v["dev"].a)
            e.dev[(size_t)d[0].i()] = (int)d[1].i();
        bool failed = false;
        vf::virtualSleep() = true;
        alarm(60);
        execute(e, [&](const std::string &k, const std::string &w) {
            printf("%s: %s\n", k.c_str(), w.c_str());
            failed = true;
        });
        return failed;
    };
    return vf::main(argc, argv, H);
}
#endif
