// C17 — path post-processing. E1: all short waypoint paths of a world x routines x parameters x deviation-bounded answer
// streams of the routine's random draws; E3 for the deterministic densification routines.
#include <ompl/base/DiscreteMotionValidator.h>
#include "path_oracle.hpp"
#include "asanhook.hpp"
#include "notime.hpp"
#include <ompl/geometric/PathSimplifier.h>
#include <ompl/geometric/PathHybridization.h>

using namespace vw;

static const char *ROUTINES[] = {"reduceVertices", "partialShortcut", "ropeShortcut", "collapseClose", "smoothBSpline", "perturb", "findBetterGoal", "simplify", "simplifyMax"};

// records every motion the routine validated successfully (and the valid part of a partly valid one): the oracle for "introduces only
// motions it has validated"
struct RecordingValidator : ob::MotionValidator
{
    std::shared_ptr<ob::MotionValidator> inner;
    mutable std::vector<std::array<double, 4>> ok;
    RecordingValidator(const ob::SpaceInformationPtr &si) : ob::MotionValidator(si), inner(std::make_shared<ob::DiscreteMotionValidator>(si))
    {
    }
    void note(const ob::State *a, const ob::State *b) const
    {
        double x1, y1, x2, y2;
        xy(si_->getStateSpace().get(), a, x1, y1);
        xy(si_->getStateSpace().get(), b, x2, y2);
        ok.push_back({x1, y1, x2, y2});
    }
    bool checkMotion(const ob::State *s1, const ob::State *s2) const override
    {
        bool r = inner->checkMotion(s1, s2);
        if (r)
            note(s1, s2);
        return r;
    }
    bool checkMotion(const ob::State *s1, const ob::State *s2, std::pair<ob::State *, double> &lastValid) const override
    {
        bool r = inner->checkMotion(s1, s2, lastValid);
        if (r)
            note(s1, s2);
        else if (lastValid.first && lastValid.second > 0)
            note(s1, lastValid.first);
        return r;
    }
};

struct World
{
    std::shared_ptr<RecordingValidator> rec;
    std::unique_ptr<Problem> P;
    std::vector<std::array<double, 2>> wp;  // waypoints
    std::string spaceName;
    World(const std::string &map, const std::string &space = "R2") : spaceName(space)
    {
        Cfg c;
        c.map = map;
        c.space = space;
        c.planner = "RRT";
        c.goal = "states";  // sampleable goal with two states (for findBetterGoal)
        c.threshold = 0.3;
        c.resolution = 0.02;
        vc::Oracle so;
        so.salt = 77;
        vc::Install i(so);
        P = std::make_unique<Problem>(c);
        rec = std::make_shared<RecordingValidator>(P->si);
        P->si->setMotionValidator(rec);
        const Map &m = P->map;
        // waypoints: start, goal, second goal state, and up to 5 free cell centres spread over the map
        wp.push_back({m.sx + 0.263, m.sy + 0.257});
        int n = 0;
        for (int y = 0; y < m.H(); ++y)
            for (int x = 0; x < m.W(); ++x)
                if (m.free(x, y) && ((x * 7 + y * 3) % 4 == 1) && n < 5)
                {
                    wp.push_back({x + 0.5 + 0.013, y + 0.5 + 0.007});
                    ++n;
                }
        wp.push_back({m.gx + 0.763, m.gy + 0.757});
    }
    void set(ob::State *s, int i)
    {
        setXY(P->space.get(), s, wp[i][0], wp[i][1], spaceName == "R2" ? 0 : 0.9 * i - 2.0);  // car-like spaces: a different heading per waypoint
    }
};

struct Case
{
    std::string map, routine;
    std::vector<int> path;  // waypoint indices
    int param = 0;
    std::map<size_t, int> dev;
    std::string json() const
    {
        std::string p = "[";
        for (size_t i = 0; i < path.size(); ++i)
            p += (i ? "," : "") + std::to_string(path[i]);
        return "{\"map\":" + vf::jesc(map) + ",\"routine\":" + vf::jesc(routine) + ",\"path\":" + p + "],\"param\":" + std::to_string(param) + ",\"dev\":" + vc::devJson(dev) + "}";
    }
};

static double objCost(const ob::OptimizationObjectivePtr &o, const og::PathGeometric &p)
{
    return p.cost(o).value();
}

// runs one case; returns the choice trace
static std::vector<vc::Point> runCase(World &W, const Case &c, bool inputValid, const std::function<void(const std::string &, const std::string &)> &fail, uint64_t *obsOut = nullptr)
{
    auto &P = *W.P;
    auto &sp = P.space;
    og::PathGeometric path(P.si);
    {
        ob::State *t = sp->allocState();
        for (int i : c.path)
        {
            W.set(t, i);
            path.append(t);
        }
        sp->freeState(t);
    }
    if (c.param == 4 && c.routine == "perturb")
    {
        path.subdivide();
        path.subdivide();
    }
    og::PathGeometric before(path);
    auto lenObj = std::make_shared<ob::PathLengthOptimizationObjective>(P.si);
    ob::OptimizationObjectivePtr obj = lenObj;
    // param 3 (perturb only): cost-aware objective (so that perturbations are accepted at all), a long step and a coarse snap (both ends
    // of the perturbed stretch land on vertices): the branch that replaces a whole run of old vertices by the accepted perturbation
    // param 4 (perturb only): param 3 on a DENSE input (the waypoint path subdivided twice: vertex spacing below the snap distance, so the
    // two ends of the perturbed stretch land on vertices with several old vertices between them)
    bool useField = (c.param >= 2) && (c.routine == "perturb" || c.routine == "findBetterGoal");
    // params 3 (coarse snap) and 4 (fine snap: cut points inside segments), shortcutting only: the same cost field as the routine's own
    // objective. It is additive but not the space's metric, so "shorter" and "cheaper" differ and the cost bookkeeping of the shortcut
    // (partial segments before / after the cut points) decides what is accepted. The field is linear, so the objective's trapezoid rule
    // is exact under any subdivision of a straight segment.
    bool fieldShortcut = c.param >= 3 && (c.routine == "partialShortcut" || c.routine == "ropeShortcut");
    useField = useField || fieldShortcut;

    if (useField)
        obj = std::make_shared<Problem::FieldIntegral>(P.si);
    // a fresh goal object per case: GoalStates::sampleGoal() cycles through its states with an internal cursor, which would
    // otherwise carry over from one execution to the next (inputs aliased between executions)
    auto goal = std::make_shared<ob::GoalStates>(P.si);
    {
        auto *g0 = P.pdef->getGoal()->as<ob::GoalStates>();
        for (std::size_t i = 0; i < g0->getStateCount(); ++i)
            goal->addState(g0->getState(i));
        goal->setThreshold(g0->getThreshold());
    }
    og::PathSimplifier ps(P.si, goal, obj);
    vc::Oracle o;
    o.dev = c.dev;
    o.horizon = 200000;
    long calls = 0;
    ob::PlannerTerminationCondition ptc([&] { return ++calls > 25; });
    bool ret = false;
    unsigned maxSteps = c.param == 0 ? 1 : 3;
    double ratio = c.param == 1 ? 1.0 : 0.33, snap = (c.param == 1 || c.param == 3) ? 0.5 : (c.param == 4 && c.routine == "perturb") ? 0.1 : 0.005;
    const std::string &r = c.routine;
    W.rec->ok.clear();
    {
        vc::Install inst(o);
        try
        {
            if (r == "reduceVertices")
                ret = ps.reduceVertices(path, maxSteps, 0, ratio);
            else if (r == "partialShortcut")
                ret = ps.partialShortcutPath(path, maxSteps, 0, ratio, snap);
            else if (r == "ropeShortcut")
                ret = ps.ropeShortcutPath(path, c.param == 0 ? 1.0 : c.param == 1 ? 0.3 : 3.0, 0.1);
            else if (r == "collapseClose")
                ret = ps.collapseCloseVertices(path, maxSteps, 0);
            else if (r == "smoothBSpline")
                ps.smoothBSpline(path, maxSteps, c.param == 2 ? 0.05 : std::numeric_limits<double>::epsilon());
            else if (r == "perturb")
                ret = ps.perturbPath(path, (c.param == 3 || c.param == 1 || c.param == 4) ? 1.5 : 0.4, maxSteps, 0, snap);
            else if (r == "findBetterGoal")
                ret = ps.findBetterGoal(path, ptc, c.param == 0 ? 1 : 4, ratio, snap);
            else if (r == "simplify")
                ret = ps.simplify(path, ptc, c.param != 1);
            else
                ret = ps.simplifyMax(path);
        }
        catch (vc::Horizon &)
        {
            fail("C17|" + r + "|draw-horizon", "more than 200000 random draws");
            return o.trace;
        }
    }
    const std::string K = "C17|" + r + "|";
    size_t n = path.getStateCount();
    if (getenv("C17_DEBUG"))
    {
        printf("inputValid=%d ret=%d ptc-calls=%ld draws=%zu\n in : ", (int)inputValid, (int)ret, calls, o.trace.size());
        for (auto *s : before.getStates())
            printf("%s ", vo::sstr(sp.get(), s).c_str());
        printf("\n out: ");
        for (auto *s : path.getStates())
            printf("%s ", vo::sstr(sp.get(), s).c_str());
        printf("\n worst run in=%.3f out=%.3f check-in=%d check-out=%d\n", vo::worstInvalidRun(P, before, 64), vo::worstInvalidRun(P, path, 64), (int)before.check(), (int)path.check());
    }
    if (n == 0)
    {
        fail(K + "empty-result", "the routine returned a path with no states");
        return o.trace;
    }
    if (!sp->equalStates(path.getState(0), before.getState(0)))
        fail(K + "first-state-changed", "first state changed from " + vo::sstr(sp.get(), before.getState(0)) + " to " + vo::sstr(sp.get(), path.getState(0)));
    const ob::State *last = path.getState(n - 1), *lastBefore = before.getState(before.getStateCount() - 1);
    if (!sp->equalStates(last, lastBefore))
    {
        // the routines that look for a better goal may end the path at a (different) goal state
        bool otherGoal = r == "findBetterGoal" || r == "simplify" || r == "simplifyMax";
        bool inGoal = goal->isSatisfied(last);
        if (!(otherGoal && inGoal))
            fail(K + "last-state-changed", "last state changed from " + vo::sstr(sp.get(), lastBefore) + " to " + vo::sstr(sp.get(), last) + (otherGoal ? " which is not another goal state" : ""));
    }
    // does the (valid-at-resolution) input graze an obstacle for less than the resolution? Then sub-segments of it may fail a
    // re-check at another sampling phase: failures on such inputs are classified separately
    double grazeIn = vo::worstInvalidRun(P, before, 64);
    std::string inputClass = grazeIn > 0 ? "|input-grazes-obstacle-below-resolution" : "|clean-input";
    bool combined = r == "simplify" || r == "simplifyMax";
    if (inputValid)
    {
        double worst = vo::worstInvalidRun(P, path, 64);
        if (worst > 2.05)
            fail(K + "invalid-motion-introduced" + (combined ? std::string(ret ? "|reported-success" : "|reported-failure") : std::string()) + inputClass,
                 "a valid input path came back with a stretch of " + vf::jnum(worst) + " resolution lengths inside invalid space");
        // "introduces only motions it has validated": every motion of the result is a motion of the input, or was validated by the routine,
        // or is a piece of one of those (subdivision / densification): both end points on one such segment
        {
            std::vector<std::array<double, 4>> segs = W.rec->ok;
            for (size_t i = 0; i + 1 < before.getStateCount(); ++i)
            {
                double x1, y1, x2, y2;
                xy(sp.get(), before.getState(i), x1, y1);
                xy(sp.get(), before.getState(i + 1), x2, y2);
                segs.push_back({x1, y1, x2, y2});
            }
            auto onSeg = [](const std::array<double, 4> &g, double x, double y) {
                double dx = g[2] - g[0], dy = g[3] - g[1], L2 = dx * dx + dy * dy;
                double t = L2 > 0 ? ((x - g[0]) * dx + (y - g[1]) * dy) / L2 : 0;
                t = std::min(1.0, std::max(0.0, t));
                return std::hypot(x - (g[0] + t * dx), y - (g[1] + t * dy)) <= 1e-9;
            };
            for (size_t i = 0; i + 1 < n; ++i)
            {
                double x1, y1, x2, y2;
                xy(sp.get(), path.getState(i), x1, y1);
                xy(sp.get(), path.getState(i + 1), x2, y2);
                bool found = false;
                for (auto &g : segs)
                    if (onSeg(g, x1, y1) && onSeg(g, x2, y2))
                    {
                        found = true;
                        break;
                    }
                if (!found)
                {
                    fail(K + "unvalidated-motion" + (combined ? std::string(ret ? "|reported-success" : "|reported-failure") + inputClass : std::string()), "the motion " + vo::sstr(sp.get(), path.getState(i)) + " -> " + vo::sstr(sp.get(), path.getState(i + 1)) +
                                                       " of the result is neither a motion of the input nor (a piece of) a motion the routine validated");
                    break;
                }
            }
        }
        for (size_t i = 0; i < n; ++i)
            if (!sp->satisfiesBounds(path.getState(i)))
                fail(K + "state-out-of-bounds", "result state " + std::to_string(i) + " out of bounds");
        // (the combined routines contain B-spline smoothing and are not claimed never to lengthen)
        bool shortcutting = r == "reduceVertices" || r == "partialShortcut" || r == "ropeShortcut" || r == "collapseClose";
        if (shortcutting && !fieldShortcut && path.length() > before.length() + 1e-9 * (1 + before.length()))
            fail(K + "path-longer", "length went from " + vf::jnum(before.length()) + " to " + vf::jnum(path.length()));
        bool costAware = r == "perturb" || r == "findBetterGoal" || fieldShortcut;
        if (costAware)
        {
            double cb = objCost(obj, before), ca = objCost(obj, path);
            if (ca > cb + 1e-9 * (1 + std::fabs(cb)))
                fail(K + "cost-worse", "cost under the routine's own objective went from " + vf::jnum(cb) + " to " + vf::jnum(ca));
        }
    }
    if (combined && inputValid && ret && !path.check())
        fail(K + "success-but-invalid" + inputClass, "the combined routine reported success but the result does not pass PathGeometric::check()");
    if (obsOut)
    {
        vf::Hash h;
        h.add(ret);
        for (auto *s : path.getStates())
        {
            double x, y;
            xy(sp.get(), s, x, y);
            h.addd(x);
            h.addd(y);
        }
        *obsOut = h.h;
    }
    return o.trace;
}

static bool pathValid(World &W, const std::vector<int> &p)
{
    auto &P = *W.P;
    ob::State *a = P.space->allocState(), *b = P.space->allocState();
    bool ok = true;
    W.set(a, p[0]);
    if (!P.isValid(a))
        ok = false;
    for (size_t i = 0; ok && i + 1 < p.size(); ++i)
    {
        W.set(a, p[i]);
        W.set(b, p[i + 1]);
        if (!P.si->checkMotion(a, b) || !P.si->checkMotion(b, a))
            ok = false;
    }
    P.space->freeState(a);
    P.space->freeState(b);
    return ok;
}

static void runRoutine(const std::string &map, const std::string &routine, const vf::Args &a, vf::Report &rep)
{
    World W(map);
    int nw = W.wp.size();
    int maxLen = a.thorough() ? 5 : 4;
    std::vector<int> p;
    long inputs = 0, invalidInputs = 0;
    std::function<void()> rec = [&]() {
        if (a.expired())
        {
            rep.exhaustive = false;
            return;
        }
        if (p.size() >= 2)
        {
            bool valid = pathValid(W, p);
            bool wanted = valid;
            // invalid inputs only for the combined routine's return value, and only a few of them
            // (invalid input paths are outside the property's quantifier and are not driven)
            if (wanted)
            {
                ++inputs;
                for (int param = 0; param < (routine == "perturb" || routine == "partialShortcut" ? 5 : routine == "ropeShortcut" ? 4 : 3); ++param)
                {
                    Case c{map, routine, p, param, {}};
                    auto run = [&](const std::map<size_t, int> &dev) {
                        c.dev = dev;
                        std::string cj = c.json();
                        uint64_t obs = 0;
                        long a0 = vf::asanErrorCount();
                        auto tr = runCase(W, c, valid, [&](const std::string &k, const std::string &w) { rep.fail(k, w, cj); }, &obs);
                        if (vf::asanErrorCount() != a0)
                            rep.fail("C17|" + routine + "|memory", "AddressSanitizer report", cj);
                        rep.evaluations++;
                        rep.transitions++;
                        rep.outcomes.insert(obs);
                        vf::Hash h;
                        h.adds(cj);
                        if (!dev.empty())
                            rep.nontrivial.insert(h.h);
                        if (rep.samples.size() < 3 && dev.size() == 1 && (rep.evaluations % 4001) == 0)
                            rep.sample(cj);
                        rep.metrics["max_draws"] = std::max<double>(rep.metrics["max_draws"], tr.size());
                        return tr;
                    };
                    vc::DBE dbe;
                    dbe.D = a.thorough() ? 2 : 1;
                    dbe.N = a.thorough() ? 14 : 12;
                    dbe.expired = [&] { return a.expired(); };
                    dbe.explore(run);
                    if (dbe.cut)
                        rep.exhaustive = false;
                }
                rep.states++;
            }
        }
        if ((int)p.size() == maxLen)
            return;
        for (int i = 0; i < nw; ++i)
        {
            p.push_back(i);
            rec();
            p.pop_back();
        }
    };
    rec();
    rep.validated += 1;
    // replay-twice gate on one case
    {
        Case c{map, routine, {0, 1, nw - 1}, 0, {}};
        uint64_t o1 = 0, o2 = 0;
        runCase(W, c, false, [](const std::string &, const std::string &) {}, &o1);
        runCase(W, c, false, [](const std::string &, const std::string &) {}, &o2);
        if (o1 != o2)
            rep.fail("C17|" + routine + "|nondeterministic-replay", "same answer stream, different result", c.json());
    }
    rep.bounds["waypoints_" + map] = std::to_string(nw);
    rep.bounds["max_path_states"] = std::to_string(maxLen);
    rep.metrics["input_paths"] += inputs;
}

// deterministic densification: interpolate(), interpolate(count), subdivide
static void runDensify(const std::string &map, const vf::Args &a, vf::Report &rep, const std::string &space = "R2")
{
    World W(map, space);
    // car-like spaces: interpolation is NOT symmetric (interpolate(a,b,t) != interpolate(b,a,1-t) for plain Dubins), lengths carry the
    // solver's own tolerance
    const std::string sfx = space == "R2" ? "" : "|" + space;
    const double ltol = space == "R2" ? 1e-9 : 1e-6;
    auto &P = *W.P;
    auto &sp = P.space;
    int nw = W.wp.size();
    int maxLen = a.thorough() ? 5 : 4;
    std::vector<int> p;
    std::function<void()> rec = [&]() {
        if (p.size() >= 1)
        {
            og::PathGeometric orig(P.si);
            ob::State *t = sp->allocState();
            for (int i : p)
            {
                W.set(t, i);
                orig.append(t);
            }
            sp->freeState(t);
            auto rj = [&](const std::string &op, int count) {
                std::string s = "[";
                for (size_t i = 0; i < p.size(); ++i)
                    s += (i ? "," : "") + std::to_string(p[i]);
                return "{\"map\":" + vf::jesc(map) + ",\"routine\":\"densify\",\"space\":" + vf::jesc(space) + ",\"op\":" + vf::jesc(op) + ",\"count\":" + std::to_string(count) + ",\"path\":" + s + "]}";
            };
            auto contains = [&](const og::PathGeometric &q, const std::string &op, int count) {
                // original vertices appear in order
                size_t j = 0;
                for (size_t i = 0; i < orig.getStateCount(); ++i)
                {
                    while (j < q.getStateCount() && !sp->equalStates(q.getState(j), orig.getState(i)))
                        ++j;
                    if (j == q.getStateCount())
                    {
                        rep.fail("C17|densify|" + op + "|vertex-lost" + sfx, "original vertex " + std::to_string(i) + " is missing (or out of order) after " + op, rj(op, count));
                        return;
                    }
                    ++j;
                }
                if (std::fabs(q.length() - orig.length()) > ltol * (1 + orig.length()))
                    rep.fail("C17|densify|" + op + "|length-changed" + sfx, "length went from " + vf::jnum(orig.length()) + " to " + vf::jnum(q.length()), rj(op, count));
            };
            for (int count = (int)p.size(); count <= (int)p.size() + 6; ++count)
            {
                og::PathGeometric q(orig);
                q.interpolate(count);
                rep.evaluations++;
                rep.transitions++;
                if ((int)q.getStateCount() != count && p.size() >= 2)
                    rep.fail("C17|densify|interpolate-count|count" + sfx, "interpolate(" + std::to_string(count) + ") on " + std::to_string(p.size()) + " states produced " + std::to_string(q.getStateCount()) + " states", rj("interpolate-count", count));
                contains(q, "interpolate-count", count);
                vf::Hash h;
                h.adds(rj("c", count));
                rep.nontrivial.insert(h.h);
                rep.outcomes.insert(q.getStateCount() * 1000 + p.size());
            }
            {
                og::PathGeometric q(orig);
                q.interpolate();
                rep.evaluations++;
                contains(q, "interpolate", 0);
                // every segment is cut into validSegmentCount pieces
                size_t want = 1;
                for (size_t i = 0; i + 1 < orig.getStateCount(); ++i)
                    want += std::max(1u, sp->validSegmentCount(orig.getState(i), orig.getState(i + 1)));
                if (orig.getStateCount() >= 2 && q.getStateCount() != want)
                    rep.fail("C17|densify|interpolate|count" + sfx, "interpolate() produced " + std::to_string(q.getStateCount()) + " states, expected " + std::to_string(want), rj("interpolate", 0));
                og::PathGeometric s(orig);
                s.subdivide();
                rep.evaluations++;
                contains(s, "subdivide", 0);
                if (s.getStateCount() != (orig.getStateCount() < 2 ? orig.getStateCount() : 2 * orig.getStateCount() - 1))
                    rep.fail("C17|densify|subdivide|count" + sfx, "subdivide() produced " + std::to_string(s.getStateCount()) + " states from " + std::to_string(orig.getStateCount()), rj("subdivide", 0));
            }
            rep.states++;
        }
        if ((int)p.size() == maxLen)
            return;
        for (int i = 0; i < nw; ++i)
        {
            p.push_back(i);
            rec();
            p.pop_back();
        }
    };
    rec();
    rep.sample("{\"map\":" + vf::jesc(map) + ",\"routine\":\"densify\",\"op\":\"interpolate-count\",\"count\":7,\"path\":[0,2,2,1]}");
}

// hybridization: all sets of <= 3 recorded valid waypoint paths from start to goal
static void runHybrid(const std::string &map, const vf::Args &a, vf::Report &rep)
{
    World W(map);
    auto &P = *W.P;
    auto &sp = P.space;
    int nw = W.wp.size();
    std::vector<std::vector<int>> cands;
    for (int i = 1; i < nw - 1; ++i)
    {
        cands.push_back({0, i, nw - 1});
        for (int j = 1; j < nw - 1; ++j)
            if (i != j)
                cands.push_back({0, i, j, nw - 1});
    }
    cands.push_back({0, nw - 1});
    std::vector<std::vector<int>> valid;
    for (auto &c : cands)
        if (pathValid(W, c))
            valid.push_back(c);
    if (valid.size() > (a.thorough() ? 14u : 9u))
        valid.resize(a.thorough() ? 14 : 9);
    auto mk = [&](const std::vector<int> &p) {
        auto q = std::make_shared<og::PathGeometric>(P.si);
        ob::State *t = sp->allocState();
        for (int i : p)
        {
            W.set(t, i);
            q->append(t);
        }
        sp->freeState(t);
        return q;
    };
    size_t n = valid.size();
    for (size_t i = 0; i < n; ++i)
        for (size_t j = i; j < n; ++j)
            for (size_t k = j; k < n; ++k)
            {
                std::vector<size_t> set{i};
                if (j != i)
                    set.push_back(j);
                if (k != j)
                    set.push_back(k);
                vc::Oracle o;
                vc::Install inst(o);
                og::PathHybridization hy(P.si);
                double best = 1e300;
                for (size_t s : set)
                {
                    auto q = mk(valid[s]);
                    best = std::min(best, q->length());
                    hy.recordPath(q, false);
                }
                hy.computeHybridPath();
                auto &res = hy.getHybridPath();
                rep.evaluations++;
                rep.transitions++;
                rep.states++;
                std::string rj = "{\"map\":" + vf::jesc(map) + ",\"routine\":\"hybridize\",\"set\":[" + std::to_string(i) + "," + std::to_string(j) + "," + std::to_string(k) + "]}";
                if (!res)
                    rep.fail("C17|hybridize|no-result", "no hybrid path although paths were recorded", rj);
                else
                {
                    auto *g = static_cast<og::PathGeometric *>(res.get());
                    if (g->length() > best + 1e-9 * (1 + best))
                        rep.fail("C17|hybridize|worse-than-best-input", "hybrid path length " + vf::jnum(g->length()) + " exceeds the best recorded path " + vf::jnum(best), rj);
                    if (vo::worstInvalidRun(P, *g, 64) > 2.05)
                        rep.fail("C17|hybridize|invalid", "hybrid path crosses invalid space", rj);
                }
                vf::Hash h;
                h.adds(rj);
                if (set.size() > 1)
                    rep.nontrivial.insert(h.h);
                rep.outcomes.insert(res ? (uint64_t)(static_cast<og::PathGeometric *>(res.get())->length() * 1e6) : 0);
            }
    rep.sample("{\"map\":" + vf::jesc(map) + ",\"routine\":\"hybridize\",\"set\":[0,1,2]}");
    rep.bounds["hybrid_paths_" + map] = std::to_string(n);
}

int main(int argc, char **argv)
{
    ompl::msg::setLogLevel(ompl::msg::LOG_NONE);
    vf::virtualSleep() = true;
    vf::Harness H;
    H.property = "C17";
    H.jobs = [](const vf::Args &a) {
        std::vector<std::string> j;
        std::vector<std::string> ms = {"wallgap4", "diag4", "maze6", "empty4"};
        for (auto &m : ms)
        {
            for (auto *r : ROUTINES)
                j.push_back(m + "/" + r);
            j.push_back(m + "/densify");
            j.push_back(m + "/hybridize");
        }
        // asymmetric interpolation. (Reeds-Shepp is not driven here: its distance is not additive along its own curves at
        // word-selection boundaries - the known finding of C07 / C14 - so "length unchanged" fails there for that reason)
        j.push_back("empty4/densify-Dubins");
        return j;
    };
    H.run = [](const std::string &job, const vf::Args &a, vf::Report &rep) {
        std::string map = job.substr(0, job.find('/')), r = job.substr(job.find('/') + 1);
        if (r == "densify")
            runDensify(map, a, rep);
        else if (r.substr(0, 8) == "densify-")
            runDensify(map, a, rep, r.substr(8));
        else if (r == "hybridize")
            runHybrid(map, a, rep);
        else
            runRoutine(map, r, a, rep);
        rep.rule = "input paths: ALL sequences of 2..4 (thorough 5) waypoints (start, goal, free cell centres; repeated states and zero-length segments included) whose segments are valid,; "
                   " x 9 routines x 3 parameter settings x every answer stream with <= D deviations among the routine's first N random draws (hook H1); "
                   "densification: every count in [size, size+6]; hybridization: all sets of <= 3 recorded paths; states = input paths, non-trivial = executions with a non-default answer";
        rep.assumptions = {"termination conditions are evaluation-counted (25 evaluations), sleeps virtual", "metric space (R^2): shortcutting routines must not lengthen the path",
                           "B-spline smoothing is not a shortcutting routine: only end points, bounds and validity are asserted for it",
                           "the last state may be replaced by another goal state only by findBetterGoal and the combined routines"};
    };
    H.replay = [](const vf::JV &v) {
        vf::Args a;
        vf::Report r;
        std::string rt = v["routine"].s, map = v["map"].s;
        if (rt == "densify")
            runDensify(map, a, r, v.has("space") ? v["space"].s : std::string("R2"));
        else if (rt == "hybridize")
            runHybrid(map, a, r);
        else
        {
            World W(map);
            Case c{map, rt, {}, (int)v["param"].i(), {}};
            for (auto &x : v["path"].a)
                c.path.push_back((int)x.i());
            for (auto &d : v["dev"].a)
                c.dev[(size_t)d[0].i()] = (int)d[1].i();
            bool valid = pathValid(W, c.path);
            runCase(W, c, valid, [&](const std::string &k, const std::string &w) { r.fail(k, w, ""); });
        }
        for (auto &f : r.failures)
            printf("%s: %s\n", f.key.c_str(), f.what.c_str());
        return !r.failures.empty();
    };
    return vf::main(argc, argv, H);
}
