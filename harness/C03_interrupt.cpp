// C03 — interrupting, resuming, clearing. E1 with the termination index as an enumerated crash point (ALL k up to past the
// first solution) crossed with call histories; counting state space for leaks / double frees.
#include "path_oracle.hpp"
#include "guard.hpp"
#include "asanhook.hpp"
#include "notime.hpp"
#include <ompl/base/PlannerData.h>

using namespace vw;

static const int BIG = 150;  // "B": a budget that lets the default run finish its search phase

struct Exec
{
    Cfg cfg;
    std::vector<std::string> hist;  // S<k> | SB | C | Q | P1 | P2 | D | X
    std::map<size_t, int> dev;
    std::string json() const
    {
        return "{" + cfg.json() + ",\"hist\":" + vf::jstrs(hist) + ",\"dev\":" + vc::devJson(dev) + "}";
    }
};

struct Result
{
    long maxExtraEvals = 0;
    long solves = 0;
    uint64_t obs = 0;
    long firstSolutionEval = -1;  // evaluation index at which the definition first held a solution (first solve only)
};

static bool betterOrEqualTop(const ob::PlannerSolution &before, const ob::PlannerSolution &after, const ob::OptimizationObjectivePtr &opt)
{
    if (!before.approximate_ && after.approximate_)
        return false;
    if (before.approximate_ && !after.approximate_)
        return true;
    if (before.approximate_ && after.approximate_)
        return after.difference_ <= before.difference_ + 1e-9;
    // both exact: compare stored costs when both carry one
    if (before.opt_ && after.opt_ && opt)
        return !opt->isCostBetterThan(before.cost_, after.cost_) || std::fabs(before.cost_.value() - after.cost_.value()) <= 1e-9 * (1 + std::fabs(before.cost_.value()));
    return true;
}

static void execute(const Exec &e, const vo::Fail &fail, Result *res = nullptr)
{
    const std::string &pl = e.cfg.planner;
    unsigned flags = vpl::find(pl)->flags;
    vc::Oracle setupOracle;
    setupOracle.salt = 77;
    std::unique_ptr<Problem> P;
    {
        vc::Install i(setupOracle);
        P = std::make_unique<Problem>(e.cfg);
    }
    auto space = P->space;
    auto *cnt = dynamic_cast<CountingR2 *>(space.get());
    vc::Oracle o;
    o.dev = e.dev;
    o.horizon = 200000;
    o.salt = vpl::streamSalt(pl);
    vc::Install inst(o);
    std::vector<ob::ProblemDefinitionPtr> pdefs{P->pdef};  // keep alive until teardown
    ob::ProblemDefinitionPtr cur = P->pdef;
    bool staleAllowedNone = false;  // after clear()/setPD: no state of the previous query may be reported
    std::string switchKind;         // how the current query was entered: "", "clear", "clearQuery", "setProblemDefinition"
    std::vector<std::vector<double>> oldQueryStates;
    auto reals = [&](const ob::State *s) {
        std::vector<double> r;
        space->copyToReals(r, s);
        return r;
    };
    auto rememberQuery = [&](const ob::ProblemDefinitionPtr &pd) {
        for (unsigned i = 0; i < pd->getStartStateCount(); ++i)
            oldQueryStates.push_back(reals(pd->getStartState(i)));
        if (auto *gs = dynamic_cast<ob::GoalState *>(pd->getGoal().get()))
            oldQueryStates.push_back(reals(gs->getState()));
    };
    vf::Hash obs;
    bool first = true, unwound = false;
    // "X" = the user empties the definition's solution list (ProblemDefinition::clearSolutionPaths) without touching the planner: a
    // continued solve() must then report again at least what it had reported ("can only keep or improve the reported solution")
    bool droppedExact = false;
    ob::PlannerSolution droppedTop(nullptr);
    int solvesSinceSwitch = 0;  // solve() calls that got past the input-state checks since the latest clear / clearQuery / switch
    try
    {
        for (auto &op : e.hist)
        {
            if (op[0] == 'S')
            {
                int budget = op == "SB" ? BIG : atoi(op.c_str() + 1);
                size_t before = cur->getSolutionCount();
                ob::PlannerSolution topBefore(nullptr);
                bool hadTop = before > 0;
                if (hadTop)
                    topBefore = cur->getSolutions()[0];
                long calls = 0, firstTrue = -1, firstSol = -1;
                ob::PlannerTerminationCondition ptc([&] {
                    ++calls;
                    if (first && firstSol < 0 && cur->getSolutionCount() > 0)
                        firstSol = calls;
                    bool t = calls > budget;
                    if (t && firstTrue < 0)
                        firstTrue = calls;
                    if (calls > budget + 2000)
                        throw vc::Horizon();  // never stops evaluating: treat like a hang with a replayable cause
                    return t;
                });
                ob::PlannerStatus st = P->planner->solve(ptc);
                long extra = firstTrue < 0 ? 0 : calls - firstTrue;
                if (res)
                {
                    res->maxExtraEvals = std::max(res->maxExtraEvals, extra);
                    res->solves++;
                    if (first)
                        res->firstSolutionEval = firstSol;
                }
                first = false;
                if (extra > 50)
                    fail(switchKind == "setProblemDefinition" ? "C03|stale-query-after-setProblemDefinition|" + pl : "C03|late-return|" + pl, "solve() evaluated the termination condition " + std::to_string(extra) + " more times after it first became true");
                std::string where = switchKind.empty() ? "" : "|after-" + switchKind;
                auto tag = [&](const std::string &k, const std::string &w) {
                    // C01-style failures are re-labelled for this property, keeping their clause
                    std::string kk = k;
                    if (kk.substr(0, 4) == "C01|")
                        kk = "C03|" + kk.substr(4);
                    // a path that does not start at the current start after switching queries is the stale-query defect; after a
                    // BARE setProblemDefinition the planner searches a mixture of two queries, so every path-level failure there
                    // is a consequence of that one defect
                    if (switchKind == "setProblemDefinition" || (!switchKind.empty() && kk.find("not-at-start") != std::string::npos))
                        kk = "C03|stale-query-after-" + switchKind + "|" + pl;
                    else
                        kk += where;
                    // classified by cause: the exact solution the definition holds was reported by an EARLIER call, this call only
                    // added an approximate one (planners that do not remember their own solution) - kept apart from every other way
                    // of returning Approximate solution next to an exact one
                    if (k.find("status-approximate-but-exact") != std::string::npos && hadTop && !topBefore.approximate_)
                        kk += "|exact-solution-predates-this-call";
                    fail(kk, w + " [history step " + op + "]");
                };
                vo::checkStatus(*P, st, before, pl, tag, cur.get());
                // "a status that truthfully describes what the problem definition now holds": Invalid start / Invalid goal only when
                // the definition really has no valid start / goal state (asked of single-state and multi-state goals only)
                {
                    auto sv = (ob::PlannerStatus::StatusType)st;
                    // classified by what preceded the call: a first solve, a continued one, or one after clearQuery()
                    size_t opIndex = &op - &e.hist[0];
                    // the latest clear / clearQuery / switch before this call decides the class (solves, getPlannerData and
                    // clearSolutionPaths in between do not change what the planner was told)
                    std::string prevOp;
                    for (size_t b = opIndex; b-- > 0;)
                        if (e.hist[b] == "Q" || e.hist[b] == "C" || e.hist[b][0] == 'P')
                        {
                            prevOp = e.hist[b];
                            break;
                        }
                    // ... unless a solve() since then already went through: then this one is a continued solve of the new epoch
                    if (solvesSinceSwitch > 0)
                        prevOp.clear();
                    std::string ctx = opIndex == 0 ? "|first-solve" : prevOp == "Q" ? "|after-clearQuery" : prevOp == "C" ? "|after-clear" : (!prevOp.empty() ? "|after-switch" : "|continued");
                    if (sv != ob::PlannerStatus::INVALID_START)  // (Invalid goal still means the start states were consumed)
                        ++solvesSinceSwitch;
                    auto usable = [&](const ob::State *x) { return space->satisfiesBounds(x) && P->isValid(x); };
                    if (sv == ob::PlannerStatus::INVALID_START)
                    {
                        bool any = false;
                        for (unsigned i = 0; i < cur->getStartStateCount(); ++i)
                            any = any || usable(cur->getStartState(i));
                        if (any)
                            tag("C03|invalid-start-status-with-valid-start|" + pl + ctx, "solve() returned Invalid start although the problem definition has a valid start state");
                    }
                    if (sv == ob::PlannerStatus::INVALID_GOAL)
                    {
                        bool any = false;
                        if (auto *g1 = dynamic_cast<ob::GoalState *>(cur->getGoal().get()))
                            any = usable(g1->getState());
                        else if (auto *gn = dynamic_cast<ob::GoalStates *>(cur->getGoal().get()))
                            for (size_t i = 0; i < gn->getStateCount(); ++i)
                                any = any || usable(gn->getState(i));
                        if (any)
                            tag("C03|invalid-goal-status-with-valid-goal|" + pl + ctx, "solve() returned Invalid goal although the goal state is valid");
                    }
                }
                size_t now = cur->getSolutionCount();
                for (auto &sol : cur->getSolutions())
                {
                    vo::checkSolution(*P, sol, flags, pl, tag, nullptr, cur.get());
                    if (staleAllowedNone)
                        if (auto *path = dynamic_cast<og::PathGeometric *>(sol.path_.get()))
                            for (auto *x : path->getStates())
                            {
                                auto r = reals(x);
                                for (auto &old : oldQueryStates)
                                    if (r == old)
                                    {
                                        fail("C03|stale-query-after-" + switchKind + "|" + pl, "after " + switchKind + " the reported path contains " + vo::sstr(space.get(), x) +
                                                                                                    ", a start/goal state of the previous query [history step " + op + "]");
                                        goto staleDone;
                                    }
                            }
                }
            staleDone:
                if (droppedExact)
                {
                    bool exactNow = now > 0 && !cur->getSolutions()[0].approximate_;
                    if (!exactNow)
                        fail("C03|resume-loses-solution|" + pl, "the planner had reported an exact solution; after ProblemDefinition::clearSolutionPaths() a continued solve() reports " +
                                                                    std::string(now ? "only an approximate one" : "nothing") + " [history step " + op + "]");
                    else if (!betterOrEqualTop(droppedTop, cur->getSolutions()[0], cur->getOptimizationObjective()))
                        fail("C03|resume-worsens-solution|" + pl + "|after-clearSolutionPaths", "after ProblemDefinition::clearSolutionPaths() a continued solve() reports a worse solution than before [history step " + op + "]");
                    droppedExact = false;
                    droppedTop = ob::PlannerSolution(nullptr);  // release the path: its states count as live otherwise
                }
                if (hadTop && now > 0 && !betterOrEqualTop(topBefore, cur->getSolutions()[0], cur->getOptimizationObjective()))
                    fail("C03|resume-worsens-solution|" + pl, "a continued solve() made the best reported solution worse [history step " + op + "]");
                obs.add((int)(ob::PlannerStatus::StatusType)st);
                obs.add(now);
                if (now)
                {
                    auto *path = dynamic_cast<og::PathGeometric *>(cur->getSolutions()[0].path_.get());
                    if (path)
                        for (auto *x : path->getStates())
                            for (double d : reals(x))
                                obs.addd(d);
                }
            }
            else if (op == "X")
            {
                if (cur->getSolutionCount() > 0 && !cur->getSolutions()[0].approximate_ && switchKind != "setProblemDefinition")
                {
                    droppedExact = true;
                    droppedTop = cur->getSolutions()[0];
                }
                cur->clearSolutionPaths();
            }
            else if (op == "C")
            {
                solvesSinceSwitch = 0;
                droppedExact = false;
                P->planner->clear();
                rememberQuery(cur);
                // same definition stays set; its solutions were reported by the forgotten search: start from a clean slate
                cur->clearSolutionPaths();
                staleAllowedNone = false;  // same query: its own start/goal are of course allowed
                oldQueryStates.clear();
                switchKind = "";
            }
            else if (op == "Q")
            {
                solvesSinceSwitch = 0;
                droppedExact = false;
                P->planner->clearQuery();
                cur->clearSolutionPaths();
            }
            else if (op == "P1" || op == "P2")
            {
                solvesSinceSwitch = 0;
                droppedExact = false;
                rememberQuery(cur);
                ob::ProblemDefinitionPtr pd;
                if (op == "P2")
                    pd = P->query2();
                else
                {
                    pd = std::make_shared<ob::ProblemDefinition>(P->si);
                    pd->addStartState(P->starts[0]);
                    pd->setGoal(P->pdef->getGoal());
                    if (e.cfg.objective)
                        pd->setOptimizationObjective(std::make_shared<ob::PathLengthOptimizationObjective>(P->si));
                    oldQueryStates.clear();  // same start and goal as before
                }
                pdefs.push_back(pd);
                P->planner->setProblemDefinition(pd);
                cur = pd;
                staleAllowedNone = op == "P2";
                switchKind = "setProblemDefinition";
            }
            else if (op == "D")
            {
                ob::PlannerData pd(P->si);
                P->planner->getPlannerData(pd);
                obs.add(pd.numVertices() > 0);
            }
            // "C" followed by "P2" is the documented way to switch: label it as a clear-switch
            if ((op == "P2" || op == "P1") && &op != &e.hist[0])
            {
                size_t i = &op - &e.hist[0];
                if (e.hist[i - 1] == "C")
                    switchKind = "clear";
                else if (e.hist[i - 1] == "Q")
                    switchKind = "clearQuery";
            }
        }
    }
    catch (vc::Horizon &)
    {
        unwound = true;  // the harness's own exception unwound solve(): allocations of that frame are not the planner's leak
        fail(switchKind == "setProblemDefinition" ? "C03|stale-query-after-setProblemDefinition|" + pl : "C03|never-stops-evaluating|" + pl, "solve() kept evaluating the termination condition 2000 times after it became true, or drew more than 200000 random numbers");
    }
    catch (ompl::Exception &ex)
    {
        fail("C03|exception|" + pl, std::string("exception: ") + ex.what());
    }
    droppedTop = ob::PlannerSolution(nullptr);
    if (res)
        res->obs = obs.h;
    // teardown: planner, definitions, space information; then the counting space must hold no live state
    ompl::verif::rngOracle() = &o;
    cur.reset();
    pdefs.clear();
    P.reset();
    if (cnt)
    {
        if (cnt->badFrees)
            fail("C03|double-free|" + pl + "|free@" + cnt->badFreeSite, std::to_string(cnt->badFrees) + " state(s) were freed twice (or never allocated by this space), first from " + cnt->badFreeSite);
        if (!unwound)
            for (auto &l : cnt->leakSites())
                fail("C03|state-leak|" + pl + "|alloc@" + l.first, std::to_string(l.second) + " state(s) allocated in " + l.first + " are still alive after planner, problem definitions and space information were destroyed");
        // release leaked states so that the space can be destroyed quietly
        std::vector<const ob::State *> left;
        for (auto &l : cnt->live)
            left.push_back(l.first);
        for (auto *s : left)
            cnt->freeState(const_cast<ob::State *>(s));
    }
}

static std::vector<std::vector<std::string>> histories(int k, bool thorough)
{
    std::string S = "S" + std::to_string(k);
    std::vector<std::vector<std::string>> h = {
        {S},
        {S, "SB"},
        {S, S, "SB"},
        {S, "C", "SB"},
        {S, "C", "P2", "SB"},
        {S, "D", "Q", "SB"},
        {S, "Q", "P2", "SB"},
        {S, "P2", "SB"},
        {"SB", "C", S},
        {S, "P1", "SB"},
        {S, "SB", "X", "SB"},  // the user empties the solution list, then a continued solve with the full budget
        {S, "S0"},        // resumed with a condition that is already true: whatever is re-reported must still be described truthfully
        {S, "S1", "S0"},  // a resume too short to get anywhere, then an expired one
    };
    if (thorough)
    {
        // all histories of length <= 4 that start with solve(k)
        h.clear();
        std::vector<std::string> ops = {S, "SB", "C", "Q", "P2", "P1", "D"};
        std::vector<std::vector<std::string>> level{{S}};
        for (int len = 1; len <= 4; ++len)
        {
            for (auto &x : level)
                h.push_back(x);
            std::vector<std::vector<std::string>> next;
            if (len < 4)
                for (auto &x : level)
                    for (auto &o : ops)
                    {
                        auto y = x;
                        y.push_back(o);
                        next.push_back(y);
                    }
            level.swap(next);
        }
    }
    return h;
}

static std::string crashKey(const std::string &planner, const vg::Outcome &o)
{
    if (o.timeout || o.sig == SIGALRM)
        return "C03|hang|" + planner;
    if (o.sig)
        return "C03|crash|" + planner + "|signal-" + std::to_string(o.sig);
    return "C03|crash|" + planner + "|exit-" + std::to_string(o.code);
}

int main(int argc, char **argv)
{
    ompl::msg::setLogLevel(ompl::msg::LOG_NONE);
    vf::Harness H;
    H.property = "C03";
    H.jobs = [](const vf::Args &) {
        std::vector<std::string> j;
        for (auto &e : vpl::planners())
            if (!(e.flags & vpl::TWO_THREADED))
                j.push_back(e.name);
        return j;
    };
    H.run = [](const std::string &job, const vf::Args &a, vf::Report &rep) {
        const std::string planner = job;
        int jobCrashes = 0;
        const int maxJobCrashes = a.thorough() ? 6 : 2;
        std::vector<std::string> worlds = {"wallgap4", "maze6", "goalobst4"};
        if (a.thorough())
            worlds.push_back("utrap4");
        else if (vpl::find(planner)->flags & vpl::VARIANT)
            worlds = {"wallgap4", "goalobst4"};  // option variants: reduced world set in the quick tier
        for (auto &w : worlds)
        {
            Cfg cfg;
            cfg.planner = planner;
            cfg.map = w;
            cfg.space = "R2count";
            cfg.budget = BIG;
            if (a.expired() || jobCrashes >= maxJobCrashes)
            {
                rep.exhaustive = false;
                rep.caps.push_back(std::string(jobCrashes >= maxJobCrashes ? "crash cap reached: " : "deadline: ") + "worlds of " + planner + " left unexplored");
                break;
            }
            std::set<std::string> skip;
            int crashes = 0, slow = 0;
            for (;;)
            {
                vg::Group G;
                G.onChildStart = [] { vf::virtualSleep() = true; };
                auto body = [&](vf::Report &r) {
                    auto one = [&](const Exec &e, Result *res) {
                        std::string ej = e.json();
                        if (skip.count(ej))
                            return;
                        G.announce(ej);
                        alarm(4);
                        long a0 = vf::asanErrorCount();
                        Result local;
                        if (!res)
                            res = &local;
                        execute(e, [&](const std::string &k, const std::string &wh) { r.fail(k, wh, ej); }, res);
                        if (vf::asanErrorCount() != a0)
                            r.fail("C03|memory|" + planner, "AddressSanitizer report during the call history or teardown", ej);
                        alarm(0);
                        r.evaluations++;
                        r.transitions += res->solves;
                        r.outcomes.insert(res->obs);
                        vf::Hash h;
                        h.adds(ej);
                        if (e.hist.size() > 1)
                            r.nontrivial.insert(h.h);
                        r.metrics["max_evaluations_after_first_true"] = std::max<double>(r.metrics["max_evaluations_after_first_true"], res->maxExtraEvals);
                        if (r.samples.size() < 2 && e.hist.size() >= 3 && (r.evaluations % 97) == 0)
                            r.sample(ej);
                        G.sh->done++;
                    };
                    // lifecycle probes first, tiny budgets only: a planner whose long solves hang or crash (and exhaust the crash cap
                    // below) still gets its clear / query-switch / planner-data / teardown paths driven; plus the continued solve
                    // after success with a tiny budget
                    for (auto &h : std::vector<std::vector<std::string>>{{"S0"}, {"S0", "C"}, {"S1", "C", "S1"}, {"S2", "D", "S2"}, {"S2", "Q", "S2"}, {"S3", "C", "P2", "S3"}, {"S3", "C", "C", "S0", "D"}})
                        one(Exec{cfg, h, {}}, nullptr);
                    // K = evaluation at which the uninterrupted default run first holds a solution
                    Result r0;
                    one(Exec{cfg, {"SB"}, {}}, &r0);
                    one(Exec{cfg, {"SB", "S1"}, {}}, nullptr);
                    int K = r0.firstSolutionEval < 0 ? 40 : (int)std::min<long>(r0.firstSolutionEval, a.thorough() ? 120 : 60);
                    r.metrics["max_K"] = std::max<double>(r.metrics["max_K"], K);
                    // replay-twice gate
                    {
                        Result a1, a2;
                        Exec e{cfg, {"S7", "SB"}, {}};
                        if (!skip.count(e.json()))
                        {
                            G.announce(e.json());
                            alarm(8);
                            execute(e, [](const std::string &, const std::string &) {}, &a1);
                            void *pad = malloc(4096 + 48);
                            execute(e, [](const std::string &, const std::string &) {}, &a2);
                            free(pad);
                            alarm(0);
                        }
                        if (a1.obs != a2.obs)
                            r.fail("C03|nondeterministic-replay|" + planner, "the same history and answer stream gave two different results", e.json());
                        r.validated++;
                    }
                    for (int k = 0; k <= K + 5; ++k)
                    {
                        if (a.expired())
                        {
                            r.exhaustive = false;
                            r.caps.push_back("deadline at k=" + std::to_string(k) + " in " + planner + " / " + w);
                            break;
                        }
                        for (auto &h : histories(k, a.thorough()))
                            one(Exec{cfg, h, {}}, nullptr);
                        r.states++;
                    }
                    if (a.thorough())
                    {
                        // all single deviations over the first 20 choice points for three interruption indices
                        for (int k : {1, K / 2, K})
                            for (auto &h : {std::vector<std::string>{"S" + std::to_string(k), "SB"}, std::vector<std::string>{"S" + std::to_string(k), "C", "P2", "SB"}})
                            {
                                vc::DBE dbe;
                                dbe.D = 1;
                                dbe.N = 20;
                                dbe.expired = [&] { return a.expired(); };
                                dbe.explore([&](const std::map<size_t, int> &dev) {
                                    // the trace is not needed by the caller beyond arities: run once for the oracle, once bare for the trace
                                    Exec e{cfg, h, dev};
                                    one(e, nullptr);
                                    vc::Oracle probe;
                                    probe.dev = dev;
                                    // arities come from a cheap first solve only
                                    std::unique_ptr<Problem> PP;
                                    {
                                        vc::Oracle so;
                                        so.salt = 77;
                                        vc::Install i(so);
                                        PP = std::make_unique<Problem>(cfg);
                                    }
                                    vc::Install i(probe);
                                    try
                                    {
                                        PP->solve(k);
                                    }
                                    catch (...)
                                    {
                                    }
                                    return probe.trace;
                                });
                            }
                    }
                };
                vg::Outcome out = G.run(body, rep, a.thorough() ? 900 : 300);
                if (out.clean)
                    break;
                std::string curj = out.current;
                if (curj.empty())
                {
                    rep.exhaustive = false;
                    rep.caps.push_back("child died before announcing an execution in " + planner + " / " + w + " (wall limit or setup)");
                    break;
                }
                vg::Group G2;
                G2.onChildStart = [] { vf::virtualSleep() = true; };
                vf::Report scratch;
                scratch.maxFailuresPerKey = 1;
                vg::Outcome single = G2.run(
                    [&](vf::Report &sr) {
                        vf::JParser jp(curj);
                        vf::JV v = jp.parse();
                        Exec e{Cfg::fromJson(v), {}, {}};
                        for (auto &x : v["hist"].a)
                            e.hist.push_back(x.s);
                        for (auto &d : v["dev"].a)
                            e.dev[(size_t)d[0].i()] = (int)d[1].i();
                        alarm(40);
                        execute(e, [&](const std::string &k, const std::string &wh) { sr.fail(k, wh, curj); });
                        alarm(0);
                        sr.evaluations++;
                    },
                    scratch, 50);
                // a hang in a history with a bare setProblemDefinition (no clear()/clearQuery() before it) is the stale-query defect: the
                // planner searches a mixture of two queries' trees (e.g. BFMT traces a parent cycle) — same folding as for the
                // never-stops-evaluating clause above; crashes are not folded
                bool bareSwitch = false;
                {
                    vf::JParser jp(curj);
                    vf::JV v = jp.parse();
                    auto &h = v["hist"].a;
                    for (size_t i = 1; i < h.size(); ++i)
                        if ((h[i].s == "P1" || h[i].s == "P2") && h[i - 1].s != "C" && h[i - 1].s != "Q")
                            bareSwitch = true;
                }
                if (!single.clean && bareSwitch && (single.timeout || single.sig == SIGALRM))
                    rep.fail("C03|stale-query-after-setProblemDefinition|" + planner + "|hang", "after a bare setProblemDefinition a call of the history did not return within 40 s (" + w + ")", curj);
                else if (!single.clean && !single.sig && !single.timeout && single.code == 4)
                {
                    // exit code 4 is the choice oracle's own "replay divergence" abort (a deviation recorded in one run does not exist in the
                    // next: the planner is not a function of the answer stream there): an internal limit of the exploration, reported as a
                    // cap - never a finding of this property (hidden nondeterminism is C20's subject)
                    rep.exhaustive = false;
                    rep.caps.push_back("answer-stream replay diverged for " + planner + ": execution skipped (" + curj.substr(0, 120) + ")");
                }
                else if (!single.clean)
                    rep.fail(crashKey(planner, single), std::string(single.timeout || single.sig == SIGALRM ? "a call of the history did not return within 40 s (10x the in-group limit)" : "the call history or teardown crashed") + " (" + w + ")", curj);
                else
                {
                    // it ran to completion alone: a slow execution, not a crash; keep what its oracle found
                    for (auto &f : scratch.failures)
                        rep.fail(f.key, f.what, f.replay);
                    rep.evaluations += scratch.evaluations;
                    rep.metrics["slow_executions_rerun_alone"] += 1;
                    skip.insert(curj);
                    if (++slow > 6)
                    {
                        rep.exhaustive = false;
                        rep.caps.push_back("more than 6 executions exceeded the in-group time limit in " + planner + " / " + w + ": rest of this world skipped");
                        break;
                    }
                    continue;
                }
                skip.insert(curj);
                ++jobCrashes;
                if (++crashes >= 3 || jobCrashes >= maxJobCrashes)
                {
                    rep.exhaustive = false;
                    rep.caps.push_back("crashing/hanging executions in " + planner + " / " + w + ": rest of this world skipped");
                    break;
                }
            }
        }
        rep.rule = "per planner and world: the default answer stream; EVERY first-fire index k = 0..K+5 of the termination condition (K = evaluation at which the uninterrupted run first holds a "
                   "solution) x call histories over solve(k), solve(B), clear, clearQuery, setProblemDefinition(other query / same query), getPlannerData (10 curated; thorough: all histories "
                   "of length <= 4 starting with solve(k), plus all single deviations of the answer stream for three k); per call: bounded further evaluations, status <-> delta of the solution "
                   "set, C01 path oracle for the current query, no states of the previous query after clear/switch, resumed solves do not worsen the best solution, ASan silent; after teardown "
                   "the counting state space holds no live state and saw no double free; states = (world,k), non-trivial = histories with more than one call";
        rep.assumptions = {"planners are torn down in the order planner, problem definitions, space information",
                           "clearQuery() may keep roadmap states of older queries (documented); only clear() and switching the problem definition must forget them",
                           "LeakSanitizer is not used: leaks are decided by the counting state space with the allocation site"};
    };
    H.replay = [](const vf::JV &v) {
        Exec e{Cfg::fromJson(v), {}, {}};
        for (auto &x : v["hist"].a)
            e.hist.push_back(x.s);
        for (auto &d : v["dev"].a)
            e.dev[(size_t)d[0].i()] = (int)d[1].i();
        bool failed = false;
        vf::virtualSleep() = true;
        alarm(40);
        long a0 = vf::asanErrorCount();
        execute(e, [&](const std::string &k, const std::string &w) {
            printf("%s: %s\n", k.c_str(), w.c_str());
            failed = true;
        });
        if (vf::asanErrorCount() != a0)
        {
            printf("AddressSanitizer report\n");
            failed = true;
        }
        return failed;
    };
    return vf::main(argc, argv, H);
}
