// C05 — motion valid <=> every resolution step valid. E3: for every pair (realising each subdivision count nd) ALL 2^nd
// validity bit-vectors over the subdivision points are enumerated against the real validators.
#include <ompl/base/SpaceInformation.h>
#include <ompl/base/DiscreteMotionValidator.h>
#include <ompl/base/spaces/RealVectorStateSpace.h>
#include <ompl/base/spaces/SO2StateSpace.h>
#include <ompl/base/spaces/SE2StateSpace.h>
#include <ompl/base/spaces/DubinsStateSpace.h>
#include <ompl/base/spaces/ReedsSheppStateSpace.h>
#include <ompl/base/spaces/OwenStateSpace.h>
#include <ompl/base/spaces/Dubins3DMotionValidator.h>
#include <ompl/util/Console.h>
#include "vf.hpp"
#include "asanhook.hpp"
#include <algorithm>

namespace ob = ompl::base;

struct Setup
{
    std::string name;
    ob::StateSpacePtr space;
    ob::SpaceInformationPtr si;
    std::vector<std::vector<double>> pairs;  // reals of s1 followed by reals of s2
    std::string validator;                   // discrete | dubins | reedsshepp | owen
    bool compoundCount = false;              // count = max over components
};

static Setup makeSetup(const std::string &name)
{
    Setup S;
    S.name = name;
    if (name == "R1")
    {
        auto sp = std::make_shared<ob::RealVectorStateSpace>(1);
        sp->setBounds(-2, 8);
        S.space = sp;
        S.pairs = {{0, 7.3}, {5, -1.1}, {-2, 8}, {0.25, 0.25}};
        S.validator = "discrete";
    }
    else if (name == "SO2")
    {
        S.space = std::make_shared<ob::SO2StateSpace>();
        S.pairs = {{3.0, -3.0}, {-3.1, 3.05}, {0.1, 2.9}, {-1, -1}};
        S.validator = "discrete";
    }
    else if (name == "SE2")
    {
        auto sp = std::make_shared<ob::SE2StateSpace>();
        ob::RealVectorBounds b(2);
        b.setLow(-1);
        b.setHigh(3);
        sp->setBounds(b);
        S.space = sp;
        S.pairs = {{0, 0, 3.0, 2.5, 1.5, -3.0}, {-1, -1, 0, 3, 3, 1}, {1, 1, 1, 1, 1, 1}};
        S.validator = "discrete";
        S.compoundCount = true;
    }
    else if (name == "CompoundR1SO2")
    {
        auto cs = std::make_shared<ob::CompoundStateSpace>();
        auto r = std::make_shared<ob::RealVectorStateSpace>(1);
        r->setBounds(0, 10);
        cs->addSubspace(r, 0.5);
        cs->addSubspace(std::make_shared<ob::SO2StateSpace>(), 2.0);
        cs->lock();
        S.space = cs;
        S.pairs = {{0, 3.0, 9, -3.0}, {1, 0, 1.5, 3}, {2, 1, 2, 1}};
        S.validator = "discrete";
        S.compoundCount = true;
    }
    else if (name == "Dubins" || name == "DubinsSym" || name == "ReedsShepp")
    {
        std::shared_ptr<ob::SE2StateSpace> sp;
        if (name == "Dubins")
            sp = std::make_shared<ob::DubinsStateSpace>(1.0, false);
        else if (name == "DubinsSym")
            sp = std::make_shared<ob::DubinsStateSpace>(0.7, true);
        else
            sp = std::make_shared<ob::ReedsSheppStateSpace>(1.0);
        ob::RealVectorBounds b(2);
        b.setLow(-5);
        b.setHigh(5);
        sp->setBounds(b);
        S.space = sp;
        S.pairs = {{0, 0, 0, 3, 2, 1.5}, {0, 0, 0, 0.5, 0.5, 3.0}, {-2, 1, 1, -2, 1, -2}, {1, 1, 0.5, 1, 1, 0.5}};
        S.validator = name == "ReedsShepp" ? "reedsshepp" : "dubins";
    }
    else if (name == "Owen")
    {
        auto sp = std::make_shared<ob::OwenStateSpace>(1.0, 0.5);
        ob::RealVectorBounds b(3);
        b.setLow(-6);
        b.setHigh(6);
        sp->setBounds(b);
        S.space = sp;
        S.pairs = {{0, 0, 0, 0, 4, 3, 1, 1.0}, {0, 0, 0, 0, 1, 1, 0.2, 3.0}, {1, 1, 1, 1, 1, 1, 1, 1}};
        S.validator = "owen";
    }
    S.si = std::make_shared<ob::SpaceInformation>(S.space);
    return S;
}

struct Recorder
{
    std::vector<std::vector<double>> E;  // expected subdivision states as reals, index 0..nd
    std::vector<int> firstIdx;           // first index with an equal state (validity is a function of the state)
    unsigned long bits = 0;              // bit j-1 set <=> subdivision index j valid (index 0 always valid)
    std::vector<int> queried;            // indices in query order; -1 = not a subdivision point
    const ob::StateSpace *space = nullptr;
    bool validIdx(int j) const
    {
        int f = firstIdx[j];
        return f == 0 ? true : ((bits >> (f - 1)) & 1UL);
    }
    bool operator()(const ob::State *s)
    {
        std::vector<double> r;
        space->copyToReals(r, s);
        for (size_t j = 0; j < E.size(); ++j)
            if (E[j] == r)
            {
                queried.push_back((int)j);
                return validIdx((int)j);
            }
        queried.push_back(-1);
        return true;
    }
};

static std::string rstr(const std::vector<double> &v)
{
    std::string s = "[";
    for (size_t i = 0; i < v.size(); ++i)
        s += (i ? "," : "") + vf::jnum(v[i]);
    return s + "]";
}

struct Case
{
    std::string setup;
    int pair = 0;
    double frac = 0.01;
    int factor = 1;
    unsigned long bits = 0;
};

// runs every clause on one (pair, resolution, factor, bit-vector); returns failures through fail(key, what)
static void runCase(Setup &S, Recorder &R, const Case &c, const ob::State *s1, const ob::State *s2, int nd,
                    const std::function<void(const std::string &, const std::string &)> &fail, vf::Report *rep)
{
    const std::string K = "C05|" + S.validator + "|";
    auto &si = S.si;
    R.bits = c.bits;
    // ground truth
    int jstar = 0;
    for (int j = 1; j <= nd; ++j)
        if (!R.validIdx(j))
        {
            jstar = j;
            break;
        }
    bool s2valid = nd == 0 ? true : R.validIdx(nd);
    bool truth = jstar == 0 && s2valid;
    long a0 = vf::asanErrorCount();

    // --- form 2 (bisection)
    unsigned v0 = si->getMotionValidator()->getValidMotionCount(), i0 = si->getMotionValidator()->getInvalidMotionCount();
    R.queried.clear();
    bool r2 = si->checkMotion(s1, s2);
    unsigned v1 = si->getMotionValidator()->getValidMotionCount(), i1 = si->getMotionValidator()->getInvalidMotionCount();
    if (r2 != truth)
        fail(K + "verdict|bisection", std::string("checkMotion(s1,s2) says ") + (r2 ? "valid" : "invalid") + " but the AND over the subdivision points is " + (truth ? "valid" : "invalid"));
    if ((v1 - v0) + (i1 - i0) != 1 || (r2 && v1 - v0 != 1) || (!r2 && i1 - i0 != 1))
        fail(K + "counter|bisection|" + (r2 ? "valid" : (s2valid ? "invalid-interior" : "invalid-endstate")),
             "checkMotion(s1,s2) changed the counters by valid+" + std::to_string(v1 - v0) + " invalid+" + std::to_string(i1 - i0) + " for a " + (r2 ? "valid" : "invalid") + " verdict");
    {
        std::set<int> seen;
        for (int q : R.queried)
        {
            if (q < 0)
                fail(K + "offgrid-query|bisection", "the validity checker was asked about a state that is not a k/n subdivision point");
            else if (!seen.insert(R.firstIdx[q]).second)
                fail(K + "duplicate-query|bisection", "subdivision point " + std::to_string(q) + " was checked twice");
        }
    }
    // --- form 1 (incremental, lastValid)
    ob::State *sentinel = si->allocState(), *lv = si->allocState();
    {
        std::vector<double> sv = R.E[0];
        S.space->copyFromReals(sentinel, sv);
        S.space->copyFromReals(lv, sv);
    }
    std::pair<ob::State *, double> lastValid(lv, -7.0);
    v0 = v1;
    i0 = i1;
    R.queried.clear();
    bool r1 = si->checkMotion(s1, s2, lastValid);
    v1 = si->getMotionValidator()->getValidMotionCount();
    i1 = si->getMotionValidator()->getInvalidMotionCount();
    if (r1 != truth)
        fail(K + "verdict|incremental", std::string("checkMotion(s1,s2,lastValid) says ") + (r1 ? "valid" : "invalid") + " but the AND over the subdivision points is " + (truth ? "valid" : "invalid"));
    if (r1 != r2)
        fail(K + "forms-disagree", "the two forms of checkMotion disagree");
    if ((v1 - v0) + (i1 - i0) != 1 || (r1 && v1 - v0 != 1) || (!r1 && i1 - i0 != 1))
        fail(K + "counter|incremental|" + (r1 ? "valid" : "invalid"),
             "checkMotion(s1,s2,lastValid) changed the counters by valid+" + std::to_string(v1 - v0) + " invalid+" + std::to_string(i1 - i0));
    for (int q : R.queried)
        if (q < 0)
            fail(K + "offgrid-query|incremental", "the validity checker was asked about a state that is not a k/n subdivision point");
    if (r1)
    {
        std::vector<double> now;
        S.space->copyToReals(now, lastValid.first);
        if (lastValid.second != -7.0 || lastValid.first != lv || now != R.E[0])
            fail(K + "lastvalid-touched-on-success", "a valid motion modified the caller's lastValid storage");
    }
    else if (!truth)
    {
        double want = (double)(jstar - 1) / (double)nd;
        if (!(lastValid.second >= 0.0 && lastValid.second < 1.0))
            fail(K + "fraction-range", "lastValid fraction " + vf::jnum(lastValid.second) + " not in [0,1)");
        if (lastValid.second != want)
            fail(K + "fraction-value", "lastValid fraction " + vf::jnum(lastValid.second) + " but the first invalid subdivision point is " + std::to_string(jstar) + " of " +
                                           std::to_string(nd) + " (expected " + vf::jnum(want) + ")");
        else
        {
            ob::State *chk = si->allocState();
            S.space->interpolate(s1, s2, lastValid.second, chk);
            if (!S.space->equalStates(chk, lastValid.first))
                fail(K + "lastvalid-state", "lastValid state is not interpolate(s1,s2,fraction)");
            si->freeState(chk);
        }
    }
    // --- form 1 with lastValid.first == nullptr
    {
        std::pair<ob::State *, double> lv0(nullptr, -7.0);
        bool r = si->checkMotion(s1, s2, lv0);
        if (r != truth)
            fail(K + "verdict|incremental-null", "checkMotion with lastValid.first == nullptr gives another verdict");
        if (!r && !truth && lv0.second != (double)(jstar - 1) / (double)nd)
            fail(K + "fraction-value|null", "fraction differs when lastValid.first is nullptr");
    }
    // --- form 1 with lastValid.first aliasing s2 ("need not be different from s1 or s2")
    if (nd >= 1)
    {
        ob::State *s2c = si->cloneState(s2);
        // the recorder matches by value, so the clone is still recognised as index nd
        std::pair<ob::State *, double> lva(s2c, -7.0);
        bool r = si->checkMotion(s1, s2c, lva);
        if (r != truth)
            fail(K + "verdict|incremental-alias", "checkMotion with lastValid.first aliasing s2 gives another verdict");
        if (!r && !truth)
        {
            ob::State *chk = si->allocState();
            S.space->interpolate(s1, s2, (double)(jstar - 1) / (double)nd, chk);
            if (!S.space->equalStates(chk, s2c))
                fail(K + "lastvalid-state|alias", "with lastValid.first aliasing s2 the returned state is not interpolate(s1,s2,fraction)");
            si->freeState(chk);
        }
        si->freeState(s2c);
    }
    si->freeState(sentinel);
    si->freeState(lv);
    if (vf::asanErrorCount() != a0)
        fail(K + "memory", "AddressSanitizer report inside checkMotion");
    if (rep)
    {
        vf::Hash h;
        h.adds(S.name);
        h.add(nd);
        h.add(jstar);
        h.add(truth);
        rep->outcomes.insert(h.h);
    }
}

static std::string caseJson(const Case &c)
{
    return "{\"setup\":" + vf::jesc(c.setup) + ",\"pair\":" + std::to_string(c.pair) + ",\"frac\":" + vf::jnum(c.frac) + ",\"factor\":" + std::to_string(c.factor) +
           ",\"bits\":" + std::to_string(c.bits) + "}";
}

// prepare recorder for (pair, frac, factor); returns nd
static int prepare(Setup &S, Recorder &R, const Case &c, ob::State *s1, ob::State *s2)
{
    S.space->setLongestValidSegmentFraction(c.frac);
    S.space->setValidSegmentCountFactor(c.factor);
    S.si->setup();
    S.space->setup();
    auto &p = S.pairs[c.pair];
    size_t n = p.size() / 2;
    std::vector<double> a(p.begin(), p.begin() + n), b(p.begin() + n, p.end());
    S.space->copyFromReals(s1, a);
    S.space->copyFromReals(s2, b);
    int nd = S.space->validSegmentCount(s1, s2);
    R.space = S.space.get();
    R.E.clear();
    R.firstIdx.clear();
    ob::State *t = S.si->allocState();
    for (int j = 0; j <= nd; ++j)
    {
        std::vector<double> r;
        if (j == 0)
            S.space->copyToReals(r, s1);
        else if (j == nd)
            S.space->copyToReals(r, s2);
        else
        {
            S.space->interpolate(s1, s2, (double)j / (double)nd, t);
            S.space->copyToReals(r, t);
        }
        int f = j;
        for (int i = 0; i < j; ++i)
            if (R.E[i] == r)
            {
                f = R.firstIdx[i];
                break;
            }
        R.E.push_back(r);
        R.firstIdx.push_back(f);
    }
    S.si->freeState(t);
    return nd;
}

static void installValidator(Setup &S, Recorder &R)
{
    S.si->setStateValidityChecker([&R](const ob::State *s) { return R(s); });
    if (S.validator == "dubins")
        S.si->setMotionValidator(std::make_shared<ob::DubinsMotionValidator>(S.si));
    else if (S.validator == "reedsshepp")
        S.si->setMotionValidator(std::make_shared<ob::ReedsSheppMotionValidator>(S.si));
    else if (S.validator == "owen")
        S.si->setMotionValidator(std::make_shared<ob::Dubins3DMotionValidator<ob::OwenStateSpace>>(S.si));
    else
        S.si->setMotionValidator(std::make_shared<ob::DiscreteMotionValidator>(S.si));
}

// independent computation of the segment count: factor * ceil(distance / (fraction * extent)); a compound space takes the
// maximum over its components, each with its own factor and extent
static void checkCount(Setup &S, const Case &c, const ob::State *s1, const ob::State *s2, int nd,
                       const std::function<void(const std::string &, const std::string &)> &fail)
{
    unsigned expect;
    if (S.compoundCount)
    {
        auto *cs = S.space->as<ob::CompoundStateSpace>();
        expect = 0;
        for (unsigned i = 0; i < cs->getSubspaceCount(); ++i)
        {
            auto &sub = cs->getSubspace(i);
            double d = sub->distance(s1->as<ob::CompoundState>()->components[i], s2->as<ob::CompoundState>()->components[i]);
            unsigned ci = sub->getValidSegmentCountFactor() * (unsigned)std::ceil(d / (c.frac * sub->getMaximumExtent()));
            expect = std::max(expect, ci);
        }
    }
    else
        expect = c.factor * (unsigned)std::ceil(S.space->distance(s1, s2) / (c.frac * S.space->getMaximumExtent()));
    if ((unsigned)nd != expect)
        fail("C05|segment-count|" + S.name, "validSegmentCount " + std::to_string(nd) + " != factor*ceil(distance/resolution) " + std::to_string(expect));
}

static void runSetup(const std::string &name, const vf::Args &a, vf::Report &rep)
{
    Setup S = makeSetup(name);
    Recorder R;
    installValidator(S, R);
    int maxNd = a.thorough() ? 16 : 12;
    ob::State *s1 = S.si->allocState(), *s2 = S.si->allocState();
    std::set<std::string> doneKeys;
    for (int factor : {1, 2, 3})
        for (size_t pi = 0; pi < S.pairs.size(); ++pi)
        {
            std::set<int> seenNd;
            // sweep resolutions from coarse to fine; keep the first one realising each nd
            for (double frac = 0.9; frac > 1e-4; frac *= 0.83)
            {
                Case c{name, (int)pi, frac, factor, 0};
                int nd = prepare(S, R, c, s1, s2);
                if (nd > maxNd || !seenNd.insert(nd).second)
                    continue;
                checkCount(S, c, s1, s2, nd, [&](const std::string &k, const std::string &w) { rep.fail(k, w, caseJson(c)); });
                if (nd == 0)
                {
                    // identical states: only the valid end state is meaningful (s1 is valid by precondition)
                    runCase(S, R, c, s1, s2, nd, [&](const std::string &k, const std::string &w) { rep.fail(k, w, caseJson(c)); }, &rep);
                    rep.evaluations++;
                    rep.transitions += 4;
                    continue;
                }
                unsigned long N = 1UL << nd;
                for (unsigned long bits = 0; bits < N; ++bits)
                {
                    c.bits = bits;
                    runCase(S, R, c, s1, s2, nd, [&](const std::string &k, const std::string &w) { rep.fail(k, w, caseJson(c)); }, &rep);
                    rep.evaluations++;
                    rep.transitions += 4;  // four checkMotion calls per case
                    vf::Hash h;
                    h.adds(name);
                    h.add(pi);
                    h.add(nd);
                    h.add(factor);
                    h.add(bits);
                    if (bits != N - 1)
                        rep.nontrivial.insert(h.h);
                }
                rep.states += 1;
                if (rep.samples.size() < rep.maxSamples && nd >= 3)
                {
                    c.bits = N - 3;
                    rep.sample(caseJson(c) + "");
                }
            }
        }
    S.si->freeState(s1);
    S.si->freeState(s2);
    rep.bounds["max_subdivisions"] = std::to_string(maxNd);
}

// explicit state lists: SpaceInformation::checkMotion(states,count[,firstInvalid]) and getMotionStates
static void runLists(const vf::Args &a, vf::Report &rep)
{
    auto sp = std::make_shared<ob::RealVectorStateSpace>(1);
    sp->setBounds(0, 100);
    auto si = std::make_shared<ob::SpaceInformation>(sp);
    unsigned long bits = 0;
    si->setStateValidityChecker([&bits](const ob::State *s) {
        int i = (int)s->as<ob::RealVectorStateSpace::StateType>()->values[0];
        return (bits >> i) & 1UL;
    });
    si->setup();
    int maxC = a.thorough() ? 16 : 12;
    std::vector<ob::State *> st(maxC + 2);
    for (size_t i = 0; i < st.size(); ++i)
    {
        st[i] = si->allocState();
        st[i]->as<ob::RealVectorStateSpace::StateType>()->values[0] = (double)i;
    }
    for (int count = 0; count <= maxC; ++count)
        for (bits = 0; bits < (1UL << count); ++bits)
        {
            int first = -1;
            for (int i = 0; i < count; ++i)
                if (!((bits >> i) & 1))
                {
                    first = i;
                    break;
                }
            std::string rj = "{\"setup\":\"lists\",\"count\":" + std::to_string(count) + ",\"bits\":" + std::to_string(bits) + "}";
            unsigned fi = 777;
            bool r1 = si->checkMotion(st, count, fi);
            bool r2 = si->checkMotion(st, count);
            if (r1 != (first < 0))
                rep.fail("C05|lists|verdict|incremental", "checkMotion(states,count,first) verdict wrong", rj);
            if (r2 != (first < 0))
                rep.fail("C05|lists|verdict|bisection", "checkMotion(states,count) verdict wrong", rj);
            if (first >= 0 && fi != (unsigned)first)
                rep.fail("C05|lists|first-invalid-index", "firstInvalidStateIndex " + std::to_string(fi) + " expected " + std::to_string(first), rj);
            if (first < 0 && fi != 777)
                rep.fail("C05|lists|index-touched-on-success", "firstInvalidStateIndex modified although all states are valid", rj);
            rep.evaluations++;
            rep.transitions += 2;
            vf::Hash h;
            h.add(count);
            h.add(bits);
            if (first >= 0)
                rep.nontrivial.insert(h.h);
            vf::Hash o;
            o.add(count);
            o.add(first);
            rep.outcomes.insert(o.h);
        }
    rep.states += maxC + 1;
    // getMotionStates: count intermediate states, with/without endpoints, alloc or caller-provided storage of every size
    bits = ~0UL;
    ob::State *s1 = st[1], *s2 = st[9];
    for (unsigned count = 0; count <= 6; ++count)
        for (int endpoints = 0; endpoints <= 1; ++endpoints)
            for (int size = -1; size <= (int)count + 3; ++size)  // -1 = alloc
            {
                std::string rj = "{\"setup\":\"motionstates\",\"count\":" + std::to_string(count) + ",\"endpoints\":" + std::to_string(endpoints) + ",\"size\":" + std::to_string(size) + "}";
                std::vector<ob::State *> out;
                bool alloc = size < 0;
                if (!alloc)
                {
                    out.resize(size);
                    for (auto &s : out)
                    {
                        s = si->allocState();
                        s->as<ob::RealVectorStateSpace::StateType>()->values[0] = -55;
                    }
                }
                unsigned n = si->getMotionStates(s1, s2, out, count, endpoints, alloc);
                std::vector<double> want;
                if (endpoints)
                    want.push_back(1);
                for (unsigned j = 1; j <= count; ++j)
                {
                    ob::State *t = si->allocState();
                    sp->interpolate(s1, s2, (double)j / (double)(count + 1), t);
                    want.push_back(t->as<ob::RealVectorStateSpace::StateType>()->values[0]);
                    si->freeState(t);
                }
                if (endpoints)
                    want.push_back(9);
                unsigned expectN = alloc ? want.size() : std::min<size_t>(want.size(), out.size());
                if (n != expectN)
                    rep.fail("C05|motionstates|count", "getMotionStates returned " + std::to_string(n) + " expected " + std::to_string(expectN), rj);
                else
                    for (unsigned i = 0; i < n; ++i)
                    {
                        // with too little storage the end state may legitimately be dropped; the first n are in order
                        double got = out[i]->as<ob::RealVectorStateSpace::StateType>()->values[0];
                        if (got != want[i] && !(i + 1 == n && endpoints && got == 9))
                            rep.fail("C05|motionstates|state", "getMotionStates state " + std::to_string(i) + " = " + vf::jnum(got) + " expected " + vf::jnum(want[i]), rj);
                    }
                for (auto *s : out)
                    if (s)
                        si->freeState(s);
                rep.evaluations++;
                rep.transitions++;
            }
    for (auto *s : st)
        si->freeState(s);
    rep.sample("{\"setup\":\"lists\",\"count\":5,\"bits\":23}");
    rep.bounds["max_list_length"] = std::to_string(maxC);
}

int main(int argc, char **argv)
{
    ompl::msg::setLogLevel(ompl::msg::LOG_NONE);
    vf::Harness H;
    H.property = "C05";
    H.jobs = [](const vf::Args &) { return std::vector<std::string>{"R1", "SO2", "SE2", "CompoundR1SO2", "Dubins", "DubinsSym", "ReedsShepp", "Owen", "lists"}; };
    H.run = [](const std::string &job, const vf::Args &a, vf::Report &r) {
        if (job == "lists")
            runLists(a, r);
        else
            runSetup(job, a, r);
        r.rule = "for each space, segment-count factor 1..3 and pair, the resolution is swept so that every subdivision count nd <= bound occurs; for each nd ALL 2^nd "
                 "validity assignments to the subdivision points 1..nd are run through both forms of checkMotion (+ nullptr and aliasing lastValid) with a recording "
                 "validity checker; states = (space,pair,factor,nd) combinations, evaluations = bit-vectors; non-trivial = assignments with at least one invalid point";
        r.assumptions = {"s1 is valid (documented precondition); identical states are driven only with a valid end state",
                         "validity is a function of the state: subdivision points that coincide bitwise share one validity bit",
                         "subdivision states are computed by the harness with the space's own interpolate (C07 checks interpolate itself)"};
    };
    H.replay = [](const vf::JV &v) {
        bool failed = false;
        auto fail = [&](const std::string &k, const std::string &w) {
            printf("%s: %s\n", k.c_str(), w.c_str());
            failed = true;
        };
        if (v["setup"].s == "lists" || v["setup"].s == "motionstates")
        {
            vf::Args a;
            a.tier = "thorough";
            vf::Report r;
            runLists(a, r);
            for (auto &f : r.failures)
                fail(f.key, f.what);
            return failed;
        }
        Setup S = makeSetup(v["setup"].s);
        Recorder R;
        installValidator(S, R);
        Case c{v["setup"].s, (int)v["pair"].i(), v["frac"].d(), (int)v["factor"].i(), (unsigned long)v["bits"].n};
        ob::State *s1 = S.si->allocState(), *s2 = S.si->allocState();
        int nd = prepare(S, R, c, s1, s2);
        printf("setup %s pair %d nd=%d bits=%lu\n", c.setup.c_str(), c.pair, nd, c.bits);
        checkCount(S, c, s1, s2, nd, fail);
        runCase(S, R, c, s1, s2, nd, fail, nullptr);
        return failed;
    };
    return vf::main(argc, argv, H);
}
