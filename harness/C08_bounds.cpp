// C08 — enforceBounds (E3) and every sampler under the choice oracle (E1, depth = one sampler call).
#include "spaces.hpp"
#include "choice.hpp"
#include "vf.hpp"
#include "asanhook.hpp"
#include <ompl/base/SpaceInformation.h>
#include <ompl/base/StateValidityChecker.h>
#include <ompl/base/samplers/UniformValidStateSampler.h>
#include <ompl/base/samplers/GaussianValidStateSampler.h>
#include <ompl/base/samplers/ObstacleBasedValidStateSampler.h>
#include <ompl/base/samplers/BridgeTestValidStateSampler.h>
#include <ompl/base/samplers/MaximizeClearanceValidStateSampler.h>
#include <ompl/base/samplers/MinimumClearanceValidStateSampler.h>
#include <ompl/base/samplers/DeterministicStateSampler.h>
#include <ompl/base/PrecomputedStateSampler.h>
#include <ompl/util/Console.h>

using namespace vsp;

// ---------- wild (out-of-bounds but finite) coordinate alphabets per atom ----------
static void wildRec(const ob::StateSpace *sp, std::vector<std::vector<Coords>> &parts)
{
    if (auto *w = dynamic_cast<const ob::WrapperStateSpace *>(sp))
    {
        wildRec(w->getSpace().get(), parts);
        return;
    }
    if (sp->isCompound())
    {
        auto *cs = sp->as<ob::CompoundStateSpace>();
        for (unsigned i = 0; i < cs->getSubspaceCount(); ++i)
            wildRec(cs->getSubspace(i).get(), parts);
        return;
    }
    switch (sp->getType())
    {
        case ob::STATE_SPACE_REAL_VECTOR:
        {
            auto &b = sp->as<ob::RealVectorStateSpace>()->getBounds();
            for (unsigned i = 0; i < sp->getDimension(); ++i)
            {
                double lo = b.low[i], hi = b.high[i];
                parts.push_back(scalars({lo + (hi - lo) * 0.3, nextafter(lo, -INFINITY), lo - 1.0, nextafter(hi, INFINITY), hi + 10.0, 1e300, -1e300}));
            }
            break;
        }
        case ob::STATE_SPACE_SO2:
            parts.push_back(scalars({1.0, PI, nextafter(PI, 4.0), nextafter(-PI, -4.0), 3 * PI, -3 * PI, 7.0, -7.0, 100 * PI, 1e6, -1e6, 2 * PI, -2 * PI, 1e15}));
            break;
        case ob::STATE_SPACE_SO3:
            parts.push_back(std::vector<Coords>{{0, 0, 0, 1}, {0, 0, 0, 2}, {1, 1, 1, 1}, {1e-12, 0, 0, 1e-12}, {0, 0, 0, 0}, {0, 0, 0, 1 + 1e-8}, {0, 0, 0, 1 - 1e-8}, {1e-4, 0, 0, 0}, {3, -4, 0, 0},
                                                {1e150, 0, 0, 1e150}, {0, 0, 0, -1e-3}});
            break;
        case ob::STATE_SPACE_TIME:
        {
            auto *t = sp->as<ob::TimeStateSpace>();
            if (t->isBounded())
                parts.push_back(scalars({t->getMinTimeBound() + 0.5, t->getMinTimeBound() - 1e-9, t->getMinTimeBound() - 100, t->getMaxTimeBound() + 1e-9, 1e300}));
            else
                parts.push_back(scalars({0, 1e300, -1e300}));
            break;
        }
        case ob::STATE_SPACE_DISCRETE:
        {
            auto *d = sp->as<ob::DiscreteStateSpace>();
            parts.push_back(scalars({(double)d->getLowerBound(), (double)d->getLowerBound() - 1, (double)d->getUpperBound() + 1, -1000000, 1000000}));
            break;
        }
        default:
            fprintf(stderr, "wild: unsupported\n");
            exit(2);
    }
}

static void runEnforce(const std::string &name, const vf::Args &a, vf::Report &rep)
{
    SpaceCfg c = makeSpace(name, 3);
    auto &sp = c.space;
    ob::State *s = sp->allocState(), *t = sp->allocState();
    auto rj = [&](const Coords &in) { return "{\"mode\":\"enforce\",\"space\":" + vf::jesc(name) + ",\"in\":" + cstr(in) + "}"; };
    auto one = [&](const Coords &in, bool inLattice) {
        setCoords(sp, s, in);
        bool was = sp->satisfiesBounds(s);
        sp->copyState(t, s);
        sp->enforceBounds(s);
        rep.evaluations++;
        rep.transitions++;
        Coords out = getCoords(sp, s);
        if (!sp->satisfiesBounds(s))
            rep.fail("C08|enforce|not-in-bounds|" + name, "enforceBounds(" + cstr(in) + ") = " + cstr(out) + " does not satisfy the bounds", rj(in));
        if (was && !sp->equalStates(s, t) && out != in)
            rep.fail("C08|enforce|changes-in-bounds-state|" + name, "enforceBounds changed the in-bounds state " + cstr(in) + " to " + cstr(out), rj(in));
        sp->copyState(t, s);
        sp->enforceBounds(s);
        Coords out2 = getCoords(sp, s);
        if (out2 != out && !sp->equalStates(s, t))
            rep.fail("C08|enforce|not-idempotent|" + name, "enforceBounds is not idempotent on " + cstr(in) + ": " + cstr(out) + " then " + cstr(out2), rj(in));
        vf::Hash h;
        h.adds(name);
        for (double d : in)
            h.addd(d);
        if (!was)
            rep.nontrivial.insert(h.h);
        vf::Hash o;
        o.adds(name);
        for (double d : out)
            o.addd(d);
        rep.outcomes.insert(o.h);
    };
    for (auto &co : c.lattice)
        one(co, true);
    std::vector<std::vector<Coords>> parts;
    wildRec(sp.get(), parts);
    // full product when small, otherwise one wild component at a time + a diagonal
    size_t total = 1;
    for (auto &p : parts)
        total *= p.size();
    if (total <= (a.thorough() ? 4000000u : 800000u))
    {
        for (auto &co : product(parts))
            one(co, false);
        rep.bounds["enforce_inputs_" + name] = std::to_string(total + c.lattice.size());
    }
    else
    {
        size_t n = 0;
        for (size_t i = 0; i < parts.size(); ++i)
            for (size_t j = i; j < parts.size(); ++j)
                for (auto &vi : parts[i])
                    for (auto &vj : parts[j])
                    {
                        Coords co;
                        for (size_t k = 0; k < parts.size(); ++k)
                        {
                            const Coords &v = k == i ? vi : k == j ? vj : parts[k][0];
                            co.insert(co.end(), v.begin(), v.end());
                        }
                        one(co, false);
                        ++n;
                    }
        rep.bounds["enforce_inputs_" + name] = std::to_string(n + c.lattice.size());
        rep.caps.push_back("enforceBounds on " + name + ": pairs of wild components instead of the full product (" + std::to_string(total) + ")");
    }
    rep.states += 1;
    rep.sample(rj(product(parts).back()));
    sp->freeState(s);
    sp->freeState(t);
}

// ---------- state samplers under the oracle ----------
struct SamplerCase
{
    std::string space, mode;  // uniform | near | gauss | sub-uniform ...
    int centre = 0;
    double dist = 0;
};

// fine non-dyadic U01 alphabet: k/251 (k = 0..250), their one-ulp neighbours are not needed: 251 is prime, every value has full mantissas
static const std::vector<double> &fineU()
{
    static std::vector<double> v = [] {
        std::vector<double> r;
        for (int k = 0; k < 251; ++k)
            r.push_back(k / 251.0);
        r.push_back(1.1102230246251565e-16);
        r.push_back(1.0 - 1.1102230246251565e-16);
        r.push_back(0.5);
        return r;
    }();
    return v;
}
static bool &fineMode()
{
    static bool f = false;
    return f;
}

// the range laws of the primitive generator calls the samplers are built from: lo <= uniformReal(lo,hi) <= hi, lo <= uniformInt(lo,hi) <= hi,
// for every pair of a boundary-value alphabet and EVERY answer of the fine alphabet
static void runRngRanges(const vf::Args &, vf::Report &rep)
{
    std::vector<double> B = {-1e12, -1000, -60, -37.5, -5, -3, -1, -0.1, 0, 1e-300, 0.1, 1, 3, 5, 37.5, 60, 1000, 1e12};
    ompl::RNG rng;
    for (size_t ui = 0; ui < fineU().size(); ++ui)
        for (double lo : B)
            for (double hi : B)
            {
                if (lo > hi)
                    continue;
                vc::Oracle o;
                o.ua = fineU();
                o.dev[0] = (int)ui + 1;
                vc::Install inst(o);
                double r = rng.uniformReal(lo, hi);
                rep.evaluations++;
                rep.transitions++;
                std::string rj = "{\"mode\":\"rng\",\"lo\":" + vf::jnum(lo) + ",\"hi\":" + vf::jnum(hi) + ",\"u\":" + std::to_string(ui) + "}";
                if (!(r >= lo && r <= hi))
                    rep.fail("C08|rng|uniformReal-out-of-range", "uniformReal(" + vf::jnum(lo) + "," + vf::jnum(hi) + ") = " + vf::jnum(r) + " for u = " + vf::jnum(fineU()[ui]), rj);
                vf::Hash h;
                h.addd(lo);
                h.addd(hi);
                h.add(ui);
                rep.nontrivial.insert(h.h);
                vf::Hash oh;
                oh.addd(r);
                rep.outcomes.insert(oh.h);
                if (lo == std::floor(lo) && hi == std::floor(hi) && std::fabs(lo) < 1e9 && std::fabs(hi) < 1e9)
                {
                    vc::Oracle o2;
                    o2.ua = fineU();
                    o2.dev[0] = (int)ui + 1;
                    vc::Install inst2(o2);
                    int k = rng.uniformInt((int)lo, (int)hi);
                    rep.evaluations++;
                    if (k < (int)lo || k > (int)hi)
                        rep.fail("C08|rng|uniformInt-out-of-range", "uniformInt(" + vf::jnum(lo) + "," + vf::jnum(hi) + ") = " + std::to_string(k) + " for u = " + vf::jnum(fineU()[ui]), rj);
                }
            }
    rep.states += B.size() * B.size();
    rep.bounds["rng_fine_alphabet"] = std::to_string(fineU().size());
}

static void runSamplers(const std::string &name, const vf::Args &a, vf::Report &rep)
{
    SpaceCfg c = makeSpace(name, 1);
    auto &sp = c.space;
    Pool P(c);
    ob::State *out = sp->allocState();
    double ext = c.extentLaw ? sp->getMaximumExtent() : 10.0;
    std::vector<double> dists = {0.0, 1e-9, 0.3 * ext, ext, 10 * ext};
    // centres: a spread of lattice states
    std::vector<size_t> centres;
    size_t nC = a.thorough() ? 10 : 6;
    for (size_t k = 0; k < nC && k < P.st.size(); ++k)
        centres.push_back(k * (P.st.size() - 1) / std::max<size_t>(1, std::min(nC, P.st.size()) - 1));
    std::vector<ob::StateSamplerPtr> samplers = {sp->allocStateSampler()};
    std::vector<std::string> sname = {"default"};
    if (sp->isCompound() && !dynamic_cast<ob::WrapperStateSpace *>(sp.get()))
    {
        auto *cs = sp->as<ob::CompoundStateSpace>();
        samplers.push_back(sp->allocSubspaceStateSampler(cs->getSubspace(cs->getSubspaceCount() - 1)));
        sname.push_back("subspace-last");
        samplers.push_back(sp->allocSubspaceStateSampler(cs->getSubspace(0)));
        sname.push_back("subspace-first");
    }
    size_t fullDepth = a.thorough() ? 5 : 4;
    for (size_t si = 0; si < samplers.size(); ++si)
        for (const char *mode : {"uniform", "near", "gauss"})
            for (size_t ci : centres)
                for (double dist : dists)
                {
                    if (std::string(mode) == "uniform" && (ci != centres[0] || dist != dists[0]))
                        continue;
                    long maxDraws = 0;
                    auto run = [&](const std::map<size_t, int> &dev) {
                        vc::Oracle o;
                        o.dev = dev;
                        o.horizon = 4000;
                        if (fineMode())
                            o.ua = fineU();
                        vc::Install inst(o);
                        // subspace samplers leave the other components alone: start from an in-bounds state
                        sp->copyState(out, P.st[ci]);
                        bool horizon = false;
                        try
                        {
                            if (!strcmp(mode, "uniform"))
                                samplers[si]->sampleUniform(out);
                            else if (!strcmp(mode, "near"))
                                samplers[si]->sampleUniformNear(out, P.st[ci], dist);
                            else
                                samplers[si]->sampleGaussian(out, P.st[ci], dist);
                        }
                        catch (vc::Horizon &)
                        {
                            horizon = true;
                        }
                        rep.evaluations++;
                        rep.transitions++;
                        maxDraws = std::max<long>(maxDraws, o.trace.size());
                        std::string rj = "{\"mode\":\"sampler\",\"space\":" + vf::jesc(name) + ",\"sampler\":" + std::to_string(si) + ",\"call\":" + vf::jesc(mode) +
                                         ",\"centre\":" + std::to_string(ci) + ",\"dist\":" + vf::jnum(dist) + ",\"fine\":" + (fineMode() ? "true" : "false") + ",\"dev\":" + vc::devJson(dev) + "}";
                        if (horizon)
                            rep.fail("C08|sampler|no-termination|" + name + "|" + sname[si] + "|" + mode, "sampler made more than 4000 draws (rejection loop does not terminate on this answer stream)", rj);
                        else if (!sp->satisfiesBounds(out))
                            rep.fail("C08|sampler|out-of-bounds|" + name + "|" + sname[si] + "|" + mode,
                                     std::string(mode) + " sample " + cstr(getCoords(sp, out)) + " violates the bounds (centre " + cstr(c.lattice[ci]) + ", distance/stddev " + vf::jnum(dist) + ")", rj);
                        vf::Hash h;
                        h.adds(name);
                        h.add(si);
                        h.adds(mode);
                        h.add(ci);
                        h.addd(dist);
                        for (auto &d : dev)
                        {
                            h.add(d.first);
                            h.add(d.second);
                        }
                        if (!dev.empty())
                            rep.nontrivial.insert(h.h);
                        vf::Hash oh;
                        for (double d : getCoords(sp, out))
                            oh.addd(d);
                        rep.outcomes.insert(oh.h);
                        return o.trace;
                    };
                    vc::Product prod;
                    prod.depth = fullDepth;
                    prod.expired = [&] { return a.expired(); };
                    prod.explore(run);
                    vc::DBE dbe;
                    dbe.D = 2;
                    dbe.N = 12;
                    dbe.expired = [&] { return a.expired(); };
                    dbe.explore(run);
                    // fine sweep: ONE deviation among the first 6 draws, taken from a fine non-dyadic U01 alphabet (rounding of the
                    // range formulas depends on the low bits of u, which the 8 boundary answers cannot reach)
                    bool fineCut = false;
                    if (strcmp(mode, "gauss") && (dist == dists[0] || dist == dists[1] || dist == dists[3]))
                    {
                        fineMode() = true;
                        vc::DBE fine;
                        fine.D = 1;
                        fine.N = 6;
                        fine.expired = [&] { return a.expired(); };
                        fine.explore(run);
                        fineMode() = false;
                        fineCut = fine.cut;
                    }
                    if (prod.cut || dbe.cut || fineCut)
                    {
                        rep.exhaustive = false;
                        rep.caps.push_back("deadline during samplers of " + name);
                    }
                    rep.states++;
                    rep.metrics["max_draws_per_call"] = std::max<double>(rep.metrics["max_draws_per_call"], maxDraws);
                }
    rep.bounds["sampler_full_product_depth"] = std::to_string(fullDepth);
    rep.bounds["sampler_deviation_bound"] = "\"D<=2 over the first 12 draws\"";
    rep.sample("{\"mode\":\"sampler\",\"space\":" + vf::jesc(name) + ",\"call\":\"near\",\"centre\":0,\"dist\":" + vf::jnum(ext) + ",\"dev\":[[0,1],[1,2]]}");
    sp->freeState(out);
}

// ---------- valid-state samplers ----------
struct World : ob::StateValidityChecker
{
    // 4x4 cell world on [0,4]^2 (first two coordinates of the state); '#' = obstacle
    const char *map[4] = {"....", ".##.", "..#.", "...."};
    ob::StateSpacePtr sp;
    World(const ob::SpaceInformationPtr &si) : ob::StateValidityChecker(si), sp(si->getStateSpace())
    {
    }
    bool isValid(const ob::State *s) const override
    {
        Coords c = getCoords(sp, s);
        int x = (int)std::floor(c[0]), y = (int)std::floor(c[1]);
        if (x < 0 || y < 0 || x > 4 || y > 4)
            return false;
        x = std::min(x, 3);
        y = std::min(y, 3);
        // validity is collision-freedom AND a limit that has nothing to do with obstacles (x <= 3.4), while clearance() below only measures
        // the distance to obstacles: invalid states with a large clearance exist, so a sampler that ranks candidates by clearance
        // has to check their validity separately
        return map[y][x] == '.' && c[0] <= 3.4;
    }
    double clearance(const ob::State *s) const override
    {
        Coords c = getCoords(sp, s);
        double best = 1e9;
        for (int y = 0; y < 4; ++y)
            for (int x = 0; x < 4; ++x)
                if (map[y][x] == '#')
                    best = std::min(best, std::hypot(c[0] - (x + 0.5), c[1] - (y + 0.5)) - 0.5);
        return best;
    }
};

static void runValid(const std::string &job, const vf::Args &a, vf::Report &rep)
{
    // job = valid-<sampler>-<R2|SE2>
    std::string kind = job.substr(6, job.rfind('-') - 6), spn = job.substr(job.rfind('-') + 1);
    ob::StateSpacePtr sp;
    if (spn == "R2")
    {
        auto r = std::make_shared<ob::RealVectorStateSpace>(2);
        r->setBounds(0, 4);
        sp = r;
    }
    else
    {
        auto r = std::make_shared<ob::SE2StateSpace>();
        r->setBounds(rvb({{0, 4}, {0, 4}}));
        sp = r;
    }
    auto si = std::make_shared<ob::SpaceInformation>(sp);
    auto world = std::make_shared<World>(si);
    si->setStateValidityChecker(world);
    si->setStateValidityCheckingResolution(0.05);
    si->setup();
    ob::ValidStateSamplerPtr vs;
    if (kind == "uniform")
        vs = std::make_shared<ob::UniformValidStateSampler>(si.get());
    else if (kind == "gaussian")
        vs = std::make_shared<ob::GaussianValidStateSampler>(si.get());
    else if (kind == "obstacle")
        vs = std::make_shared<ob::ObstacleBasedValidStateSampler>(si.get());
    else if (kind == "bridge")
        vs = std::make_shared<ob::BridgeTestValidStateSampler>(si.get());
    else if (kind == "maxclear")
        vs = std::make_shared<ob::MaximizeClearanceValidStateSampler>(si.get());
    else
    {
        auto m = std::make_shared<ob::MinimumClearanceValidStateSampler>(si.get());
        m->setMinimumObstacleClearance(0.2);
        vs = m;
    }
    ob::State *out = si->allocState(), *near = si->allocState();
    std::vector<Coords> nears = spn == "R2" ? std::vector<Coords>{{0.5, 0.5}, {1.5, 1.5}, {4, 4}} : std::vector<Coords>{{0.5, 0.5, 1.0}, {1.5, 1.5, -PI}, {4, 4, 3.0}};
    for (unsigned attempts : {1u, 2u, 5u})
        for (int mode = 0; mode < 2; ++mode)
            for (size_t ni = 0; ni < nears.size(); ++ni)
                for (double dist : {0.0, 0.7, 10.0})
                {
                    if (mode == 0 && (ni || dist != 0.0))
                        continue;
                    vs->setNrAttempts(attempts);
                    setCoords(sp, near, nears[ni]);
                    auto run = [&](const std::map<size_t, int> &dev) {
                        vc::Oracle o;
                        o.dev = dev;
                        o.horizon = 4000;
                        vc::Install inst(o);
                        setCoords(sp, out, nears[0]);
                        bool ok = false, horizon = false;
                        try
                        {
                            ok = mode == 0 ? vs->sample(out) : vs->sampleNear(out, near, dist);
                        }
                        catch (vc::Horizon &)
                        {
                            horizon = true;
                        }
                        rep.evaluations++;
                        rep.transitions++;
                        std::string rj = "{\"mode\":\"valid\",\"job\":" + vf::jesc(job) + ",\"attempts\":" + std::to_string(attempts) + ",\"call\":" + std::to_string(mode) + ",\"near\":" +
                                         std::to_string(ni) + ",\"dist\":" + vf::jnum(dist) + ",\"dev\":" + vc::devJson(dev) + "}";
                        if (horizon)
                            rep.fail("C08|valid-sampler|no-termination|" + kind, "more than 4000 draws in one call", rj);
                        else if (ok && !sp->satisfiesBounds(out))
                            rep.fail("C08|valid-sampler|out-of-bounds|" + kind + "|" + spn, "success with an out-of-bounds state " + cstr(getCoords(sp, out)), rj);
                        else if (ok && !world->isValid(out))
                            rep.fail("C08|valid-sampler|invalid-state|" + kind + "|" + spn, "success with an invalid state " + cstr(getCoords(sp, out)), rj);
                        else if (ok && kind == "minclear" && world->clearance(out) < 0.2)
                            rep.fail("C08|valid-sampler|clearance|" + kind + "|" + spn, "success with clearance below the configured minimum", rj);
                        vf::Hash h;
                        h.adds(job);
                        h.add(attempts);
                        h.add(mode);
                        h.add(ni);
                        h.addd(dist);
                        for (auto &d : dev)
                        {
                            h.add(d.first);
                            h.add(d.second);
                        }
                        if (!dev.empty())
                            rep.nontrivial.insert(h.h);
                        vf::Hash oh;
                        oh.add(ok);
                        if (ok)
                            for (double d : getCoords(sp, out))
                                oh.addd(d);
                        rep.outcomes.insert(oh.h);
                        return o.trace;
                    };
                    vc::DBE dbe;
                    dbe.D = a.thorough() ? 3 : 2;
                    dbe.N = a.thorough() ? 16 : 12;
                    dbe.expired = [&] { return a.expired(); };
                    dbe.explore(run);
                    if (dbe.cut)
                    {
                        rep.exhaustive = false;
                        rep.caps.push_back("deadline during " + job);
                    }
                    rep.states++;
                }
    rep.bounds["valid_sampler_deviation_bound"] = a.thorough() ? "\"D<=3 over the first 16 draws\"" : "\"D<=2 over the first 12 draws\"";
    rep.sample("{\"mode\":\"valid\",\"job\":" + vf::jesc(job) + ",\"attempts\":2,\"call\":1,\"near\":1,\"dist\":0.7,\"dev\":[[0,3],[2,1]]}");
    si->freeState(out);
    si->freeState(near);
}

// ---- deterministic (Halton) state samplers: the stream is fixed, so the enumerated space is a prefix of it for a set of bounds ----
static void runHalton(const vf::Args &a, vf::Report &rep)
{
    size_t N = a.thorough() ? 65536 : 8192;
    auto rj = [](const std::string &sp, size_t i) { return "{\"mode\":\"halton\",\"space\":" + vf::jesc(sp) + ",\"index\":" + std::to_string(i) + "}"; };
    auto drive = [&](const std::string &name, const ob::StateSpacePtr &sp, const ob::StateSamplerPtr &smp) {
        ob::State *s = sp->allocState();
        vf::Hash acc;
        acc.adds(name);
        for (size_t i = 0; i < N; ++i)
        {
            smp->sampleUniform(s);
            rep.evaluations++;
            rep.transitions++;
            if (!sp->satisfiesBounds(s))
            {
                rep.fail("C08|deterministic-sampler|out-of-bounds|" + name, "sample " + std::to_string(i) + " of the Halton state sampler violates the bounds", rj(name, i));
                break;
            }
            std::vector<double> r;
            sp->copyToReals(r, s);
            for (double d : r)
                acc.addd(d);
        }
        rep.outcomes.insert(acc.h);
        rep.nontrivial.insert(acc.h);
        rep.states++;
        sp->freeState(s);
    };
    for (auto &b : std::vector<std::pair<double, double>>{{0, 1}, {-3, 7}, {-1e6, -1e6 + 1}, {1000, 1000}, {-2.5, -0.5}})
    {
        auto rv = std::make_shared<ob::RealVectorStateSpace>(3);
        rv->setBounds(b.first, b.second);
        drive("R3[" + vf::jnum(b.first) + "," + vf::jnum(b.second) + "]", rv, std::make_shared<ob::RealVectorDeterministicStateSampler>(rv.get()));
        auto se2 = std::make_shared<ob::SE2StateSpace>();
        ob::RealVectorBounds bb(2);
        bb.setLow(b.first);
        bb.setHigh(b.second);
        se2->setBounds(bb);
        drive("SE2[" + vf::jnum(b.first) + "," + vf::jnum(b.second) + "]", se2, std::make_shared<ob::SE2DeterministicStateSampler>(se2.get()));
    }
    auto so2 = std::make_shared<ob::SO2StateSpace>();
    drive("SO2", so2, std::make_shared<ob::SO2DeterministicStateSampler>(so2.get()));
    rep.bounds["halton_prefix"] = std::to_string(N);
}

// ---- PrecomputedStateSampler: samples are drawn from a given list of in-bounds states (index ranges incl. single-element ones) ----
static void runPrecomputed(const vf::Args &, vf::Report &rep)
{
    for (const char *spn : {"R2", "SE2", "SO2"})
    {
        SpaceCfg c = makeSpace(spn, 2);
        Pool P(c);
        auto &sp = c.space;
        std::vector<const ob::State *> list;
        for (size_t i = 0; i < P.st.size() && list.size() < 4; i += std::max<size_t>(1, P.st.size() / 4))
            list.push_back(P.st[i]);
        size_t n = list.size();
        ob::State *out = sp->allocState();
        for (auto range : std::vector<std::pair<size_t, size_t>>{{0, n - 1}, {0, 0}, {n - 1, n - 1}, {1, n > 2 ? n - 2 : 1}})
        {
            if (range.second >= n || range.first > range.second)
                continue;
            ob::PrecomputedStateSampler smp(sp.get(), list, range.first, range.second);
            for (int mode = 0; mode < 3; ++mode)
                for (size_t ci : {(size_t)0, P.st.size() - 1})
                    for (double dist : {0.0, 1e-9, 0.4, 3.0})
                    {
                        if (mode == 0 && (ci || dist != 0.0))
                            continue;
                        auto run = [&](const std::map<size_t, int> &dev) {
                            vc::Oracle o;
                            o.dev = dev;
                            o.horizon = 100;
                            vc::Install inst(o);
                            std::string rj = "{\"mode\":\"precomputed\",\"space\":" + vf::jesc(spn) + ",\"first\":" + std::to_string(range.first) + ",\"last\":" + std::to_string(range.second) + ",\"call\":" + std::to_string(mode) + ",\"centre\":" + std::to_string(ci) + ",\"dist\":" + vf::jnum(dist) + ",\"dev\":" + vc::devJson(dev) + "}";
                            long a0 = vf::asanErrorCount();
                            if (mode == 0)
                                smp.sampleUniform(out);
                            else if (mode == 1)
                                smp.sampleUniformNear(out, P.st[ci], dist);
                            else
                                smp.sampleGaussian(out, P.st[ci], dist);
                            rep.evaluations++;
                            rep.transitions++;
                            if (vf::asanErrorCount() != a0)
                                rep.fail("C08|precomputed-sampler|memory", "AddressSanitizer report inside the precomputed state sampler", rj);
                            else if (!sp->satisfiesBounds(out))
                                rep.fail(std::string("C08|precomputed-sampler|out-of-bounds|") + (mode == 0 ? "uniform" : mode == 1 ? "near" : "gaussian") + "|" + spn, "sample " + cstr(getCoords(sp, out)) + " violates the bounds", rj);
                            else if (mode == 0)
                            {
                                bool member = false;
                                for (size_t k = range.first; k <= range.second; ++k)
                                    member = member || sp->equalStates(out, list[k]);
                                if (!member)
                                    rep.fail("C08|precomputed-sampler|not-from-the-range", "sampleUniform returned a state outside the configured index range", rj);
                            }
                            vf::Hash h;
                            h.adds(rj);
                            if (!dev.empty())
                                rep.nontrivial.insert(h.h);
                            vf::Hash oh;
                            for (double d : getCoords(sp, out))
                                oh.addd(d);
                            rep.outcomes.insert(oh.h);
                            return o.trace;
                        };
                        vc::Product prod;
                        prod.depth = 3;
                        prod.explore(run);
                    }
        }
        sp->freeState(out);
        rep.states++;
    }
}

int main(int argc, char **argv)
{
    ompl::msg::setLogLevel(ompl::msg::LOG_NONE);
    vf::Harness H;
    H.property = "C08";
    H.jobs = [](const vf::Args &a) {
        std::vector<std::string> j;
        for (auto &n : spaceNames(a.thorough()))
        {
            j.push_back("enforce-" + n);
            if (n != "TimeUnbounded")
                j.push_back("sampler-" + n);
        }
        for (auto &n : pinnedSpaceNames())
        {
            j.push_back("enforce-" + n);
            j.push_back("sampler-" + n);
        }
        j.push_back("rng-ranges");
        j.push_back("halton");
        j.push_back("precomputed");
        for (const char *k : {"uniform", "gaussian", "obstacle", "bridge", "maxclear", "minclear"})
            for (const char *s : {"R2", "SE2"})
                j.push_back(std::string("valid-") + k + "-" + s);
        return j;
    };
    H.run = [](const std::string &job, const vf::Args &a, vf::Report &r) {
        if (job.substr(0, 8) == "enforce-")
            runEnforce(job.substr(8), a, r);
        else if (job.substr(0, 8) == "sampler-")
            runSamplers(job.substr(8), a, r);
        else if (job == "rng-ranges")
            runRngRanges(a, r);
        else if (job == "halton")
            runHalton(a, r);
        else if (job == "precomputed")
            runPrecomputed(a, r);
        else
            runValid(job, a, r);
        r.rule = "enforceBounds: lattice states + (products of) wild per-coordinate alphabets (many periods away, +-pi, +-1ulp outside, 1e300, denormalised/near-zero quaternions, out-of-range "
                 "integers): in bounds afterwards, in-bounds input unchanged, idempotent. Samplers: every space/subspace sampler x uniform/near/Gaussian x centres x distance in {0,1e-9,.3,1,10}*extent x "
                 "the full product of oracle answers (U01: default+8 boundary values incl. 0 and 1-2^-53; N01: default+7 incl. +-8) over the first draws plus all <=2 deviations over the first 12; "
                 "valid-state samplers on a 4x4 obstacle world with attempts {1,2,5}; non-trivial = executions with at least one non-default answer / out-of-bounds input";
        r.assumptions = {"finite inputs to enforceBounds", "sampler centre states are in bounds",
                         "rejection samplers (torus, Klein bottle) rely on the default stream to terminate beyond the enumerated prefix; the 4000-draw horizon reports otherwise",
                         "valid-state samplers: failure may leave anything in the output state"};
    };
    H.replay = [](const vf::JV &v) {
        vf::Args a;
        vf::Report r;
        // replay by re-running the (cheap) job that contains the case and looking for any failure
        std::string mode = v["mode"].s;
        if (mode == "enforce")
            runEnforce(v["space"].s, a, r);
        else if (mode == "sampler")
            runSamplers(v["space"].s, a, r);
        else if (mode == "rng")
            runRngRanges(a, r);
        else if (mode == "halton")
            runHalton(a, r);
        else if (mode == "precomputed")
            runPrecomputed(a, r);
        else
            runValid(v["job"].s, a, r);
        for (auto &f : r.failures)
            printf("%s: %s\n", f.key.c_str(), f.what.c_str());
        return !r.failures.empty();
    };
    return vf::main(argc, argv, H);
}
