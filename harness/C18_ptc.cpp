// C18 — termination conditions (sequential part): E2, every op sequence up to a depth against a reference model.
#include <ompl/base/PlannerTerminationCondition.h>
#include <ompl/base/terminationconditions/IterationTerminationCondition.h>
#include <ompl/base/terminationconditions/CostConvergenceTerminationCondition.h>
#include <ompl/base/ProblemDefinition.h>
#include <ompl/base/SpaceInformation.h>
#include <ompl/base/spaces/RealVectorStateSpace.h>
#include <ompl/geometric/PathGeometric.h>
#include <ompl/util/Console.h>
#include "vf.hpp"
#include "asanhook.hpp"
#include "notime.hpp"

namespace ob = ompl::base;

// enumerate all sequences over an alphabet up to a depth; f(seq) is called for every non-empty sequence
static void allSeq(const std::vector<std::string> &alpha, int depth, const std::function<void(const std::vector<std::string> &)> &f)
{
    std::vector<std::string> s;
    std::function<void()> rec = [&]() {
        if (!s.empty())
            f(s);
        if ((int)s.size() == depth)
            return;
        for (auto &a : alpha)
        {
            s.push_back(a);
            rec();
            s.pop_back();
        }
    };
    rec();
}
static std::string rj(const std::string &part, const std::vector<std::string> &seq, const std::string &extra = "")
{
    return "{\"part\":" + vf::jesc(part) + ",\"seq\":" + vf::jstrs(seq) + (extra.empty() ? "" : "," + extra) + "}";
}

// ---- (1) predicate conditions, terminate, or/and nestings ----
// shape: how the condition under test is built from the two predicate operands a, b
static const char *SHAPES[] = {"a", "or(a,b)", "and(a,b)", "or(a,and(a,b))", "and(or(a,b),a)", "or(and(a,b),and(b,a))", "never", "always", "or(never,a)", "and(always,b)", "a@period0", "or(a@period0,b)"};
struct Pred
{
    bool a = false, b = false;
    long callsA = 0, callsB = 0;
};
static void runPredicates(const vf::Args &args, vf::Report &rep, const std::string *onlyShape = nullptr, const std::vector<std::string> *onlySeq = nullptr, int onlyInit = -1)
{
    int depth = args.thorough() ? 7 : 6;
    std::vector<std::string> alpha = {"E", "fa", "fb", "Tc", "Ta", "Tb"};  // eval c, flip a, flip b, terminate c / operand a / operand b
    for (auto *shape : SHAPES)
    {
        if (onlyShape && *onlyShape != shape)
            continue;
        for (int init = 0; init < 4; ++init)
        {
            if (onlyInit >= 0 && init != onlyInit)
                continue;
            auto one = [&](const std::vector<std::string> &seq) {
                Pred P;
                P.a = init & 1;
                P.b = init & 2;
                Pred *pp = &P;
                ob::PlannerTerminationCondition A([pp] {
                    ++pp->callsA;
                    return pp->a;
                });
                ob::PlannerTerminationCondition B([pp] {
                    ++pp->callsB;
                    return pp->b;
                });
                std::string sh = shape;
                // a predicate condition given an evaluation period of exactly 0: evaluated directly, like the plain form (no thread)
                ob::PlannerTerminationCondition A0(
                    [pp] {
                        ++pp->callsA;
                        return pp->a;
                    },
                    0.0);
                if (sh == "a@period0" || sh == "or(a@period0,b)")
                    A = A0;
                ob::PlannerTerminationCondition C = (sh == "a" || sh == "a@period0") ? A : sh == "or(a@period0,b)" ? ob::plannerOrTerminationCondition(A, B) : sh == "or(a,b)" ? ob::plannerOrTerminationCondition(A, B) : sh == "and(a,b)" ? ob::plannerAndTerminationCondition(A, B) : sh == "or(a,and(a,b))" ? ob::plannerOrTerminationCondition(A, ob::plannerAndTerminationCondition(A, B)) : sh == "and(or(a,b),a)" ? ob::plannerAndTerminationCondition(ob::plannerOrTerminationCondition(A, B), A) : sh == "or(and(a,b),and(b,a))" ? ob::plannerOrTerminationCondition(ob::plannerAndTerminationCondition(A, B), ob::plannerAndTerminationCondition(B, A)) : sh == "never" ? ob::plannerNonTerminatingCondition() : sh == "always" ? ob::plannerAlwaysTerminatingCondition() : sh == "or(never,a)" ? ob::plannerOrTerminationCondition(ob::plannerNonTerminatingCondition(), A) : ob::plannerAndTerminationCondition(ob::plannerAlwaysTerminatingCondition(), B);
                bool tA = false, tB = false, tC = false;
                std::string extra = "\"shape\":" + vf::jesc(shape) + ",\"init\":" + std::to_string(init);
                for (size_t i = 0; i < seq.size(); ++i)
                {
                    const std::string &op = seq[i];
                    if (op == "fa")
                        P.a = !P.a;
                    else if (op == "fb")
                        P.b = !P.b;
                    else if (op == "Tc")
                    {
                        C.terminate();
                        tC = true;
                        if (sh == "a" || sh == "a@period0")
                            tA = true;  // C is a copy of A: they share one implementation object
                    }
                    else if (op == "Ta")
                    {
                        A.terminate();
                        tA = true;
                        if (sh == "a" || sh == "a@period0")
                            tC = true;
                    }
                    else if (op == "Tb")
                    {
                        B.terminate();
                        tB = true;
                    }
                    else
                    {
                        bool va = P.a || tA, vb = P.b || tB;
                        bool want = (sh == "a" || sh == "a@period0") ? va : (sh == "or(a,b)" || sh == "or(a@period0,b)") ? (va || vb) : sh == "and(a,b)" ? (va && vb) : sh == "or(a,and(a,b))" ? (va || (va && vb)) : sh == "and(or(a,b),a)" ? ((va || vb) && va) : sh == "or(and(a,b),and(b,a))" ? (va && vb) : sh == "never" ? false : sh == "always" ? true : sh == "or(never,a)" ? va : vb;
                        want = want || tC;
                        long ca = P.callsA, cb = P.callsB;
                        bool got = C.eval(), got2 = C();
                        rep.transitions += 2;
                        if (got != want || got2 != want)
                            rep.fail(std::string("C18|predicate|") + (tC ? "after-terminate|" : "") + shape, std::string("eval() = ") + (got ? "true" : "false") + " but the reference says " + (want ? "true" : "false") + " at step " + std::to_string(i), rj("predicates", seq, extra));
                        // a plain predicate condition consults its predicate exactly once per evaluation unless terminated
                        if (sh == "a" && !tC && P.callsA - ca != 2)
                            rep.fail("C18|predicate|invocation-count", "two evaluations invoked the predicate " + std::to_string(P.callsA - ca) + " times", rj("predicates", seq, extra));
                        if (sh == "a" && tC && P.callsA != ca)
                            rep.fail("C18|predicate|invoked-after-terminate", "the predicate was consulted although terminate() had been requested", rj("predicates", seq, extra));
                        (void)cb;
                    }
                }
                rep.evaluations++;
                vf::Hash h;
                h.adds(shape);
                h.add(init);
                for (auto &o : seq)
                    h.adds(o);
                bool hasT = false;
                for (auto &o : seq)
                    if (o[0] == 'T')
                        hasT = true;
                if (hasT)
                    rep.nontrivial.insert(h.h);
                rep.outcomes.insert(h.h % 997);
            };
            if (onlySeq)
                one(*onlySeq);
            else
                allSeq(alpha, depth, one);
            rep.states++;
        }
    }
    rep.bounds["predicate_sequence_depth"] = std::to_string(depth);
    rep.sample(rj("predicates", {"E", "fa", "E", "Tc", "fa", "E"}, "\"shape\":\"or(a,and(a,b))\",\"init\":2"));
}

// ---- (2) iteration count, incl. copies made by the conversion operator ----
static void runIteration(const vf::Args &args, vf::Report &rep, const std::vector<std::string> *onlySeq = nullptr, int onlyN = -1)
{
    int depth = args.thorough() ? 8 : 7;
    for (int n = 0; n <= 4; ++n)
    {
        if (onlyN >= 0 && n != onlyN)
            continue;
        auto one = [&](const std::vector<std::string> &seq) {
            ob::IterationTerminationCondition itc(n);
            long called = 0;  // model of the object's own counter
            std::vector<ob::PlannerTerminationCondition> copies;
            std::vector<long> copyCalled;
            std::string extra = "\"n\":" + std::to_string(n);
            for (size_t i = 0; i < seq.size(); ++i)
            {
                const std::string &op = seq[i];
                if (op == "e")
                {
                    ++called;
                    bool want = called > n, got = itc.eval();
                    rep.transitions++;
                    if (got != want)
                        rep.fail("C18|iteration|eval", "evaluation " + std::to_string(called) + " of IterationTerminationCondition(" + std::to_string(n) + ") returned " + (got ? "true" : "false"), rj("iteration", seq, extra));
                }
                else if (op == "r")
                {
                    itc.reset();
                    called = 0;
                }
                else if (op == "c")
                {
                    copies.push_back(itc);  // conversion operator: the copy continues from the current count
                    copyCalled.push_back(called);
                }
                else if (op == "E0" || op == "E1")
                {
                    size_t k = op[1] - '0';
                    if (k < copies.size())
                    {
                        ++copyCalled[k];
                        bool want = copyCalled[k] > n, got = copies[k].eval();
                        rep.transitions++;
                        if (got != want)
                            rep.fail("C18|iteration|converted-copy", "evaluation " + std::to_string(copyCalled[k]) + " of a converted copy of IterationTerminationCondition(" + std::to_string(n) + ") returned " + (got ? "true" : "false"), rj("iteration", seq, extra));
                    }
                }
                else if (op == "T0")
                {
                    if (!copies.empty())
                    {
                        copies[0].terminate();
                        copyCalled[0] = 1000000;  // true forever
                    }
                }
            }
            rep.evaluations++;
            vf::Hash h;
            h.add(n);
            for (auto &o : seq)
                h.adds(o);
            if (std::find(seq.begin(), seq.end(), "c") != seq.end())
                rep.nontrivial.insert(h.h);
            rep.outcomes.insert(h.h % 997);
        };
        if (onlySeq)
            one(*onlySeq);
        else
            allSeq({"e", "c", "E0", "E1", "r", "T0"}, depth, one);
        rep.states++;
    }
    rep.bounds["iteration_sequence_depth"] = std::to_string(depth);
    rep.sample(rj("iteration", {"e", "c", "e", "E0", "E0", "r", "e"}, "\"n\":2"));
}

// ---- (3) timed conditions under the virtual clock ----
static void runTimed(const vf::Args &args, vf::Report &rep, const std::vector<std::string> *onlySeq = nullptr, int onlyDur = -1)
{
    int depth = args.thorough() ? 8 : 7;
    const long long T0 = 1700000000LL * 1000000000LL;
    std::vector<long long> durs = {0, 1000, 1500000000LL};  // 0, 1 us, 1.5 s
    for (size_t di = 0; di < durs.size(); ++di)
    {
        if (onlyDur >= 0 && (int)di != onlyDur)
            continue;
        auto one = [&](const std::vector<std::string> &seq) {
            vf::virtualNow() = T0;
            ob::PlannerTerminationCondition c = ob::timedPlannerTerminationCondition((double)durs[di] * 1e-9);
            // the two-argument form with a checking interval of exactly 0 (and, for duration 0, an interval that is clamped to 0): no
            // evaluation thread is started for a period of 0, so it must behave exactly like the one-argument form
            ob::PlannerTerminationCondition c0 = ob::timedPlannerTerminationCondition((double)durs[di] * 1e-9, durs[di] == 0 ? 0.5 : 0.0);
            // the end time is computed in the clock's own resolution
            auto dur = std::chrono::duration_cast<ompl::time::duration>(std::chrono::duration<double>((double)durs[di] * 1e-9));
            long long end = T0 + std::chrono::duration_cast<std::chrono::nanoseconds>(dur).count();
            bool wasTrue = false, term = false;
            std::string extra = "\"dur\":" + std::to_string(di);
            for (size_t i = 0; i < seq.size(); ++i)
            {
                const std::string &op = seq[i];
                if (op == "t1")
                    vf::virtualNow() += 1;  // 1 ns
                else if (op == "tu")
                    vf::virtualNow() += 1000;  // 1 us
                else if (op == "ts")
                    vf::virtualNow() += 1000000000LL;  // 1 s
                else if (op == "T")
                {
                    c.terminate();
                    c0.terminate();
                    term = true;
                }
                else
                {
                    bool want = vf::virtualNow() > end || term, got = c.eval();
                    if (c0.eval() != want)
                        rep.fail(std::string("C18|timed|interval-0|") + (want ? "false-after-duration" : "true-before-duration"), "timed condition of " + std::to_string(durs[di]) + " ns with a checking interval of 0 evaluated " + (want ? "false" : "true") + " at +" + std::to_string(vf::virtualNow() - T0) + " ns", rj("timed", seq, extra));
                    rep.transitions++;
                    if (got != want)
                        rep.fail(std::string("C18|timed|") + (want ? "false-after-duration" : "true-before-duration"), "timed condition of " + std::to_string(durs[di]) + " ns evaluated " + (got ? "true" : "false") + " at +" + std::to_string(vf::virtualNow() - T0) + " ns", rj("timed", seq, extra));
                    if (wasTrue && !got)
                        rep.fail("C18|timed|reverted", "a timed condition went back to false", rj("timed", seq, extra));
                    wasTrue |= got;
                }
            }
            vf::virtualNow() = -1;
            rep.evaluations++;
            vf::Hash h;
            h.add(di);
            for (auto &o : seq)
                h.adds(o);
            rep.nontrivial.insert(h.h);
            rep.outcomes.insert(h.h % 997);
        };
        if (onlySeq)
            one(*onlySeq);
        else
            allSeq({"E", "t1", "tu", "ts", "T"}, depth, one);
        rep.states++;
    }
    rep.bounds["timed_sequence_depth"] = std::to_string(depth);
    rep.sample(rj("timed", {"E", "tu", "E", "ts", "E", "ts", "E"}, "\"dur\":2"));
}

// ---- (4) exact-solution condition ----
static void runExact(const vf::Args &args, vf::Report &rep, const std::vector<std::string> *onlySeq = nullptr)
{
    int depth = args.thorough() ? 8 : 7;
    auto sp = std::make_shared<ob::RealVectorStateSpace>(1);
    sp->setBounds(0, 1);
    auto si = std::make_shared<ob::SpaceInformation>(sp);
    si->setup();
    auto one = [&](const std::vector<std::string> &seq) {
        auto pdef = std::make_shared<ob::ProblemDefinition>(si);
        ob::PlannerTerminationCondition c = ob::exactSolnPlannerTerminationCondition(pdef);
        int exact = 0, approx = 0;
        bool term = false;
        for (auto &op : seq)
        {
            auto path = std::make_shared<ompl::geometric::PathGeometric>(si);
            if (op == "x")
            {
                pdef->addSolutionPath(path, false, 0.0);
                ++exact;
            }
            else if (op == "a")
            {
                pdef->addSolutionPath(path, true, 0.5);
                ++approx;
            }
            else if (op == "c")
            {
                pdef->clearSolutionPaths();
                exact = approx = 0;
            }
            else if (op == "T")
            {
                c.terminate();
                term = true;
            }
            else
            {
                bool want = exact > 0 || term, got = c.eval();
                rep.transitions++;
                if (got != want)
                    rep.fail("C18|exact-solution|mirror", std::string("exactSoln condition is ") + (got ? "true" : "false") + " while the definition holds " + std::to_string(exact) + " exact / " + std::to_string(approx) + " approximate solutions", rj("exact", seq));
            }
        }
        rep.evaluations++;
        vf::Hash h;
        for (auto &o : seq)
            h.adds(o);
        rep.nontrivial.insert(h.h);
        rep.outcomes.insert(h.h % 997);
    };
    if (onlySeq)
        one(*onlySeq);
    else
        allSeq({"E", "x", "a", "c", "T"}, depth, one);
    rep.states++;
    rep.sample(rj("exact", {"E", "a", "E", "x", "E", "c", "E"}));
}

// ---- (5) cost convergence ----
static void runCost(const vf::Args &args, vf::Report &rep, const std::vector<std::string> *onlySeq = nullptr, int onlyW = -1, int onlyEps = -1)
{
    int depth = args.thorough() ? 6 : 5;
    auto sp = std::make_shared<ob::RealVectorStateSpace>(1);
    sp->setBounds(0, 1);
    auto si = std::make_shared<ob::SpaceInformation>(sp);
    si->setup();
    std::vector<double> epss = {0.1, 0.5};
    std::map<std::string, double> costs = {{"1", 1.0}, {"1.04", 1.04}, {"1.5", 1.5}, {"3", 3.0}, {"0.97", 0.97}};
    std::vector<std::string> alpha = {"1", "1.04", "1.5", "3"};
    if (args.thorough())
        alpha.push_back("0.97");
    for (int W = 1; W <= 3; ++W)
        for (size_t ei = 0; ei < epss.size(); ++ei)
        {
            if ((onlyW >= 0 && W != onlyW) || (onlyEps >= 0 && (int)ei != onlyEps))
                continue;
            auto one = [&](const std::vector<std::string> &seq) {
                auto pdef = std::make_shared<ob::ProblemDefinition>(si);
                ob::CostConvergenceTerminationCondition cc(pdef, W, epss[ei]);
                auto cb = pdef->getIntermediateSolutionCallback();
                std::string extra = "\"window\":" + std::to_string(W) + ",\"eps\":" + std::to_string(ei);
                // reference: cumulative moving average over min(n, W) solutions; fires at the first solution for which the
                // window is full and the average moved by less than eps (relative to the previous average)
                double avg = 0;
                size_t n = 0;
                bool fired = false;
                std::vector<const ob::State *> none;
                if (cc.eval())
                    rep.fail("C18|cost-convergence|true-before-any-solution", "condition true before any solution was reported", rj("cost", seq, extra));
                for (size_t i = 0; i < seq.size(); ++i)
                {
                    double c = costs[seq[i]];
                    ++n;
                    size_t m = std::min<size_t>(n, W);
                    double nv = ((m - 1) * avg + c) / m;
                    bool conv = m == (size_t)W && nv > (1 - epss[ei]) * avg && nv < (1 + epss[ei]) * avg;
                    avg = nv;
                    fired |= conv;
                    if (cb)
                        cb(nullptr, none, ob::Cost(c));
                    bool got = cc.eval();
                    rep.transitions++;
                    if (got != fired)
                        rep.fail(std::string("C18|cost-convergence|") + (got ? "fires-early" : "fires-late"), std::string("after solution ") + std::to_string(i + 1) + " (cost " + seq[i] + ") the condition is " + (got ? "true" : "false") + " but the moving-average rule says " + (fired ? "converged" : "not converged"), rj("cost", seq, extra));
                }
                rep.evaluations++;
                vf::Hash h;
                h.add(W);
                h.add(ei);
                for (auto &o : seq)
                    h.adds(o);
                if (fired)
                    rep.nontrivial.insert(h.h);
                rep.outcomes.insert(h.h % 997);
            };
            if (onlySeq)
                one(*onlySeq);
            else
                allSeq(alpha, depth, one);
            rep.states++;
        }
    rep.bounds["cost_sequence_length"] = std::to_string(depth);
    rep.sample(rj("cost", {"3", "1.5", "1.04", "1"}, "\"window\":2,\"eps\":0"));
}

int main(int argc, char **argv)
{
    ompl::msg::setLogLevel(ompl::msg::LOG_NONE);
    vf::Harness H;
    H.property = "C18";
    H.jobs = [](const vf::Args &) { return std::vector<std::string>{"predicates", "iteration", "timed", "exact", "cost"}; };
    H.run = [](const std::string &job, const vf::Args &a, vf::Report &r) {
        if (job == "predicates")
            runPredicates(a, r);
        else if (job == "iteration")
            runIteration(a, r);
        else if (job == "timed")
            runTimed(a, r);
        else if (job == "exact")
            runExact(a, r);
        else
            runCost(a, r);
        r.rule = "every operation sequence up to the depth bound, against a reference model: predicate conditions in 10 shapes (plain, or/and nestings of depth <= 2 over shared operands, "
                 "always/never) x 4 initial predicate values over {eval, flip a, flip b, terminate condition / operand a / operand b}; IterationTerminationCondition(n<=4) incl. copies made "
                 "by the conversion operator, reset and terminate; timed conditions (0, 1 us, 1.5 s) under a virtual clock advanced by 1 ns / 1 us / 1 s; exact-solution condition over "
                 "add exact / add approximate / clear; cost convergence (window <= 3, eps in {0.1,0.5}) over all cost sequences; non-trivial = sequences containing terminate / a converted copy / a firing";
        r.assumptions = {"monotone clock (a wall clock stepped backwards is outside the quantifier)",
                         "cost convergence follows the documented cumulative-moving-average rule; the window is the number of solutions the average is taken over",
                         "the periodic (threaded) form and terminate() from another thread are explored by the thread-schedule explorer (see C19 evidence)"};
    };
    H.replay = [](const vf::JV &v) {
        vf::Args a;
        a.tier = "thorough";
        vf::Report r;
        std::vector<std::string> seq;
        for (auto &x : v["seq"].a)
            seq.push_back(x.s);
        std::string part = v["part"].s;
        if (part == "predicates")
        {
            std::string sh = v["shape"].s;
            runPredicates(a, r, &sh, &seq, (int)v["init"].i());
        }
        else if (part == "iteration")
            runIteration(a, r, &seq, (int)v["n"].i());
        else if (part == "timed")
            runTimed(a, r, &seq, (int)v["dur"].i());
        else if (part == "exact")
            runExact(a, r, &seq);
        else
            runCost(a, r, &seq, (int)v["window"].i(), (int)v["eps"].i());
        for (auto &f : r.failures)
            printf("%s: %s\n", f.key.c_str(), f.what.c_str());
        return !r.failures.empty();
    };
    return vf::main(argc, argv, H);
}
