// C09 — copies and persisted data: E3 (state lattices), E2-style enumeration of all small planner-data graphs, and fault
// enumeration (every truncation offset, every foreign signature / marker).
#include "spaces.hpp"
#include "vf.hpp"
#include "asanhook.hpp"
#include <ompl/base/ScopedState.h>
#include <ompl/base/SpaceInformation.h>
#include <ompl/base/StateStorage.h>
#include <ompl/base/PlannerData.h>
#include <ompl/base/PlannerDataStorage.h>
#include <ompl/control/PlannerData.h>
#include <ompl/control/PlannerDataStorage.h>
#include <ompl/control/SpaceInformation.h>
#include <ompl/control/spaces/RealVectorControlSpace.h>
#include <ompl/util/Console.h>
#include <boost/serialization/export.hpp>
#include <sstream>
#include <fcntl.h>
#include <sys/wait.h>
#include <unistd.h>

// documented user obligation when storing planner data with controls
BOOST_CLASS_EXPORT(ompl::control::PlannerDataEdgeControl);

using namespace vsp;

// Runs f in a forked child. Feeding an archive to the wrong loader makes boost read garbage lengths; the resulting
// std::bad_alloc / length_error (an ASan "allocation-size-too-big" abort in this build) is a loud rejection, not the silent
// acceptance this property forbids. Returns f's value (0..3), 100 for an escaped exception, 200 for death by signal/abort.
static int isolated(const std::function<int()> &f)
{
    fflush(stdout);
    fflush(stderr);
    pid_t pid = fork();
    if (pid == 0)
    {
        int devnull = open("/dev/null", 1);
        dup2(devnull, 2);
        int r = 100;
        try
        {
            r = f() ? 11 : 10;
        }
        catch (...)
        {
            r = 100;
        }
        _exit(r);
    }
    int st = 0;
    waitpid(pid, &st, 0);
    if (WIFEXITED(st))
    {
        // the child reports 10 (rejected) / 11 (accepted); ASan aborts exit with 1
        int e = WEXITSTATUS(st);
        return e == 10 ? 0 : e == 11 ? 1 : e == 100 ? 100 : 200;
    }
    return 200;
}
namespace oc = ompl::control;

// ---- captured log: was an error or warning reported? ----
struct CaptureHandler : ompl::msg::OutputHandler
{
    int errors = 0, warns = 0;
    void log(const std::string &, ompl::msg::LogLevel level, const char *, int) override
    {
        if (level >= ompl::msg::LOG_ERROR)
            ++errors;
        else if (level == ompl::msg::LOG_WARN)
            ++warns;
    }
};
static CaptureHandler g_log;

// ================= (a) state copies =================
static void runStates(const std::string &name, const vf::Args &a, vf::Report &rep)
{
    SpaceCfg c = makeSpace(name, 3);
    auto &sp = c.space;
    Pool P(c);
    size_t n = P.st.size();
    ob::State *t = sp->allocState();
    std::vector<unsigned char> buf(sp->getSerializationLength() + 16, 0xAB);
    auto rj = [&](size_t i, size_t j) { return "{\"part\":\"states\",\"space\":" + vf::jesc(name) + ",\"src\":" + cstr(c.lattice[i]) + ",\"dst_init\":" + cstr(c.lattice[j]) + "}"; };
    for (size_t i = 0; i < n; ++i)
    {
        const ob::State *s = P.st[i];
        Coords cs = c.lattice[i];
        // the target is initialised differently each time: every other lattice state (quick: 3 of them)
        size_t step = a.thorough() ? 1 : std::max<size_t>(1, n / 12);
        for (size_t j = 0; j < n; j += step)
        {
            auto same = [&](const ob::State *x, const char *what) {
                Coords cx = getCoords(sp, x);
                if (cx != cs || !sp->equalStates(x, s))
                    rep.fail(std::string("C09|state|") + what + "|" + name, std::string(what) + " of " + cstr(cs) + " gave " + cstr(cx), rj(i, j));
            };
            sp->copyState(t, P.st[j]);
            sp->copyState(t, s);
            same(t, "copyState");
            ob::State *cl = sp->cloneState(s);
            same(cl, "cloneState");
            sp->freeState(cl);
            // serialize -> deserialize into a differently initialised state
            std::fill(buf.begin(), buf.end(), 0xAB);
            sp->serialize(buf.data(), s);
            for (size_t k = sp->getSerializationLength(); k < buf.size(); ++k)
                if (buf[k] != 0xAB)
                    rep.fail("C09|state|serialize-overrun|" + name, "serialize wrote beyond getSerializationLength()", rj(i, j));
            sp->copyState(t, P.st[j]);
            sp->deserialize(t, buf.data());
            same(t, "serialize-deserialize");
            if (!c.hasDiscrete)
            {
                std::vector<double> reals;
                sp->copyToReals(reals, s);
                sp->copyState(t, P.st[j]);
                sp->copyFromReals(t, reals);
                same(t, "reals-roundtrip");
            }
            // ScopedState: assignment from a raw state, copy construction, assignment between scoped states
            {
                ob::ScopedState<> a1(sp);
                a1 = P.st[j];
                a1 = s;
                same(a1.get(), "ScopedState-assign");
                ob::ScopedState<> a2(a1);
                same(a2.get(), "ScopedState-copy");
                ob::ScopedState<> a3(sp);
                a3 = P.st[j];
                a3 = a1;
                same(a3.get(), "ScopedState-assign-scoped");
                if (!(a3 == a1))
                    rep.fail("C09|state|ScopedState-equality|" + name, "ScopedState copies compare unequal", rj(i, j));
            }
            rep.evaluations++;
            rep.transitions += 8;
            vf::Hash h;
            h.adds(name);
            h.add(i);
            h.add(j);
            if (i != j)
                rep.nontrivial.insert(h.h);
        }
        vf::Hash o;
        o.adds(name);
        for (double d : cs)
            o.addd(d);
        rep.outcomes.insert(o.h);
    }
    rep.states += n;
    rep.bounds["state_lattice_" + name] = std::to_string(n);
    if (n > 1)
        rep.sample(rj(0, n - 1));
    sp->freeState(t);
}

// ================= (a') partial copies between related spaces =================
static void runPartial(const vf::Args &a, vf::Report &rep)
{
    // shared, named components
    auto pos = std::make_shared<ob::RealVectorStateSpace>(2);
    pos->setBounds(-1, 1);
    pos->setName("pos");
    auto rot = std::make_shared<ob::SO2StateSpace>();
    rot->setName("rot");
    auto tim = std::make_shared<ob::TimeStateSpace>();
    tim->setName("tim");
    auto q = std::make_shared<ob::SO3StateSpace>();
    q->setName("quat");
    auto mk = [](std::vector<std::pair<ob::StateSpacePtr, double>> l, const char *nm) {
        auto cs = std::make_shared<ob::CompoundStateSpace>();
        for (auto &p : l)
            cs->addSubspace(p.first, p.second);
        cs->setName(nm);
        cs->lock();
        cs->setup();
        return ob::StateSpacePtr(cs);
    };
    ob::StateSpacePtr A = mk({{pos, 1}, {rot, 1}}, "A"), B = mk({{rot, 1}, {tim, 1}}, "B"), C = mk({{q, 1}, {pos, 1}, {tim, 2}}, "C");
    ob::StateSpacePtr N = mk({{A, 1}, {q, 1}}, "N");  // nested: contains A, hence pos and rot
    // two spaces that share SEVERAL components of equal dimension at equal depth, not covered by a larger common one
    auto j1 = std::make_shared<ob::SO2StateSpace>(), j2 = std::make_shared<ob::SO2StateSpace>(), j3 = std::make_shared<ob::SO2StateSpace>();
    j1->setName("j1");
    j2->setName("j2");
    j3->setName("j3");
    ob::StateSpacePtr ARM = mk({{j1, 1}, {j2, 1}, {j3, 1}, {pos, 1}}, "ARM"), PART = mk({{j1, 1}, {j2, 1}, {tim, 1}}, "PART");
    std::vector<ob::StateSpacePtr> spaces = {A, B, C, N, pos, rot, ARM, PART};
    // value alphabets per named atom (two different values each, so that a transfer is visible)
    std::map<std::string, std::vector<Coords>> val = {{"pos", {{-1, 0.25}, {0.5, 1}}}, {"rot", {{-PI}, {1.0}}}, {"tim", {{-3}, {7.5}}}, {"quat", {{0, 0, 0, 1}, {1, 0, 0, 0}}},
                                                      {"j1", {{0.1}, {-2.0}}}, {"j2", {{0.2}, {2.5}}}, {"j3", {{0.3}, {-0.7}}}};
    std::function<void(const ob::StateSpacePtr &, std::vector<std::string> &)> atoms = [&](const ob::StateSpacePtr &s, std::vector<std::string> &out) {
        if (s->isCompound())
            for (unsigned i = 0; i < s->as<ob::CompoundStateSpace>()->getSubspaceCount(); ++i)
                atoms(s->as<ob::CompoundStateSpace>()->getSubspace(i), out);
        else
            out.push_back(s->getName());
    };
    auto fill = [&](const ob::StateSpacePtr &s, ob::State *st, int which) {
        std::vector<std::string> at;
        atoms(s, at);
        Coords co;
        for (auto &n : at)
            co.insert(co.end(), val[n][which].begin(), val[n][which].end());
        setCoords(s, st, co);
    };
    for (auto &D : spaces)
        for (auto &S : spaces)
        {
            ob::State *d = D->allocState(), *s = S->allocState();
            fill(D, d, 0);
            fill(S, s, 1);
            auto r = ob::copyStateData(D, d, S, s);
            std::vector<std::string> ad, as;
            atoms(D, ad);
            atoms(S, as);
            Coords got = getCoords(D, d), want;
            int common = 0;
            for (auto &n : ad)
            {
                bool in = std::find(as.begin(), as.end(), n) != as.end();
                common += in;
                want.insert(want.end(), val[n][in ? 1 : 0].begin(), val[n][in ? 1 : 0].end());
            }
            std::string rj = "{\"part\":\"partial\",\"dest\":" + vf::jesc(D->getName()) + ",\"source\":" + vf::jesc(S->getName()) + "}";
            if (got != want)
                rep.fail("C09|partial-copy|components|" + D->getName() + "<-" + S->getName(), "copyStateData " + D->getName() + " <- " + S->getName() + " gave " + cstr(got) + " expected " + cstr(want), rj);
            // the result describes how much of the SOURCE found a place in the destination
            int srcCommon = 0;
            for (auto &n : as)
                srcCommon += std::find(ad.begin(), ad.end(), n) != ad.end();
            int expectR = srcCommon == 0 ? ob::NO_DATA_COPIED : srcCommon == (int)as.size() ? ob::ALL_DATA_COPIED : ob::SOME_DATA_COPIED;
            if ((int)r != expectR)
                rep.fail("C09|partial-copy|result|" + D->getName() + "<-" + S->getName(), "copyStateData result " + std::to_string((int)r) + " expected " + std::to_string(expectR), rj);
            // the list-driven overload with the list the library itself computes (getCommonSubspaces): same transfer
            {
                ob::State *d2 = D->allocState();
                fill(D, d2, 0);
                std::vector<std::string> subs;
                D->getCommonSubspaces(S, subs);
                ob::copyStateData(D, d2, S, s, subs);
                if (getCoords(D, d2) != want)
                {
                    std::string l;
                    for (auto &x : subs)
                        l += x + " ";
                    rep.fail("C09|partial-copy|common-subspaces|" + D->getName() + "<-" + S->getName(), "copyStateData with getCommonSubspaces() = [" + l + "] gave " + cstr(getCoords(D, d2)) + " expected " + cstr(want), rj);
                }
                D->freeState(d2);
            }
            // ScopedState operator<< does the same
            {
                ob::ScopedState<> sd(D), ss(S);
                fill(D, sd.get(), 0);
                fill(S, ss.get(), 1);
                sd << ss;
                if (getCoords(D, sd.get()) != want)
                    rep.fail("C09|partial-copy|ScopedState|" + D->getName() + "<-" + S->getName(), "ScopedState << gave " + cstr(getCoords(D, sd.get())) + " expected " + cstr(want), rj);
            }
            rep.evaluations++;
            rep.transitions += 2;
            vf::Hash h;
            h.adds(D->getName());
            h.adds(S->getName());
            if (common && D != S)
                rep.nontrivial.insert(h.h);
            rep.outcomes.insert(h.h);
            D->freeState(d);
            S->freeState(s);
        }
    rep.states += spaces.size() * spaces.size();
    rep.sample("{\"part\":\"partial\",\"dest\":\"A\",\"source\":\"C\"}");
}

// ================= (b) StateStorage =================
static std::string storeStates(const ob::StateSpacePtr &sp, const std::vector<const ob::State *> &l)
{
    ob::StateStorage ss(sp);
    for (auto *s : l)
        ss.addState(s);
    std::ostringstream os;
    ss.store(os);
    return os.str();
}
static void runStorage(const std::string &name, const vf::Args &a, vf::Report &rep)
{
    SpaceCfg c = makeSpace(name, 0);
    auto &sp = c.space;
    Pool P(c);
    size_t n = std::min<size_t>(P.st.size(), a.thorough() ? 10 : 7);
    // all multisets (as ordered lists, order is preserved by the format) of <= 3 states
    std::vector<std::vector<size_t>> lists{{}};
    for (size_t i = 0; i < n; ++i)
    {
        lists.push_back({i});
        for (size_t j = i; j < n; ++j)
        {
            lists.push_back({i, j});
            for (size_t k = j; k < n; ++k)
                lists.push_back({k, i, j});
        }
    }
    for (auto &l : lists)
    {
        std::vector<const ob::State *> sl;
        for (size_t i : l)
            sl.push_back(P.st[i]);
        g_log.errors = 0;
        std::string bytes = storeStates(sp, sl);
        ob::StateStorage in(sp);
        std::istringstream is(bytes);
        in.load(is);
        std::string rj = "{\"part\":\"storage\",\"space\":" + vf::jesc(name) + ",\"count\":" + std::to_string(l.size()) + "}";
        bool ok = in.size() == l.size() && g_log.errors == 0;
        for (size_t i = 0; ok && i < l.size(); ++i)
            if (getCoords(sp, in.getState(i)) != c.lattice[l[i]])
                ok = false;
        if (!ok)
            rep.fail("C09|state-storage|roundtrip|" + name, "StateStorage store->load did not reproduce the " + std::to_string(l.size()) + " stored states", rj);
        rep.evaluations++;
        rep.transitions += 2;
        vf::Hash h;
        h.adds(name);
        for (size_t i : l)
            h.add(i);
        if (l.size() >= 2)
            rep.nontrivial.insert(h.h);
        rep.outcomes.insert(h.h);
    }
    rep.states += lists.size();
    // faults: every truncation offset of a 3-state archive must be reported through the log
    {
        std::vector<const ob::State *> sl = {P.st[0], P.st[n - 1], P.st[n / 2]};
        std::string bytes = storeStates(sp, sl);
        for (size_t cut = 0; cut < bytes.size(); ++cut)
        {
            g_log.errors = 0;
            ob::StateStorage in(sp);
            std::istringstream is(bytes.substr(0, cut));
            in.load(is);
            bool identical = in.size() == sl.size();
            for (size_t i = 0; identical && i < sl.size(); ++i)
                identical = getCoords(sp, in.getState(i)) == getCoords(sp, sl[i]);
            if (g_log.errors == 0 && !identical)
                rep.fail("C09|state-storage|truncation-silent|" + name,
                         "archive truncated to " + std::to_string(cut) + " of " + std::to_string(bytes.size()) + " bytes was loaded without any error report (" + std::to_string(in.size()) + " states)",
                         "{\"part\":\"storage-trunc\",\"space\":" + vf::jesc(name) + ",\"cut\":" + std::to_string(cut) + "}");
            rep.evaluations++;
            rep.transitions++;
            vf::Hash h;
            h.adds(name);
            h.add(cut);
            h.adds("trunc");
            rep.nontrivial.insert(h.h);
        }
        rep.bounds["storage_truncations_" + name] = std::to_string(bytes.size());
        // foreign signature: the same bytes loaded into every other space of the catalogue
        for (auto &other : spaceNames(false))
        {
            SpaceCfg oc2 = makeSpace(other, 0);
            std::vector<int> s1, s2;
            sp->computeSignature(s1);
            oc2.space->computeSignature(s2);
            if (s1 == s2)
                continue;
            int rc = isolated([&] {
                g_log.errors = 0;
                ob::StateStorage in(oc2.space);
                std::istringstream is(bytes);
                in.load(is);
                return g_log.errors == 0 ? 1 : 0;
            });
            rep.metrics["loud_rejections_by_exception_or_abort"] += rc >= 100;
            if (rc == 1)
                rep.fail("C09|state-storage|foreign-signature-silent|" + name, "archive of " + name + " was loaded into " + other + " without any error report",
                         "{\"part\":\"storage-sig\",\"space\":" + vf::jesc(name) + ",\"other\":" + vf::jesc(other) + "}");
            rep.evaluations++;
            rep.transitions++;
        }
    }
}

// ================= (c) PlannerData graphs =================
struct GraphSpec
{
    int n = 0;
    std::vector<int> type;  // 0 standard 1 start 2 goal 3 both
    std::vector<int> tag;
    std::vector<int> edge;  // n*n entries: 0 none 1 weight .5 2 weight 2 (i!=j)
    bool markDescending = false;
    int removeVertex = -1;  // remove this vertex (of an n+1 graph) before storing
    bool control = false;
    std::string json() const
    {
        auto l = [](const std::vector<int> &v) {
            std::string s = "[";
            for (size_t i = 0; i < v.size(); ++i)
                s += (i ? "," : "") + std::to_string(v[i]);
            return s + "]";
        };
        return "{\"part\":\"graph\",\"n\":" + std::to_string(n) + ",\"type\":" + l(type) + ",\"tag\":" + l(tag) + ",\"edge\":" + l(edge) + ",\"desc\":" + (markDescending ? "true" : "false") +
               ",\"remove\":" + std::to_string(removeVertex) + ",\"control\":" + (control ? "true" : "false") + "}";
    }
};

struct GraphEnv
{
    ob::StateSpacePtr sp;
    ob::SpaceInformationPtr si;
    std::shared_ptr<oc::SpaceInformation> csi;
    std::shared_ptr<oc::RealVectorControlSpace> cspace;
    std::vector<ob::State *> st;
    std::vector<oc::Control *> ctl;
    GraphEnv()
    {
        auto s = std::make_shared<ob::SE2StateSpace>();
        s->setBounds(rvb({{-1, 3}, {0, 2}}));
        sp = s;
        si = std::make_shared<ob::SpaceInformation>(sp);
        si->setStateValidityChecker([](const ob::State *) { return true; });
        si->setup();
        cspace = std::make_shared<oc::RealVectorControlSpace>(sp, 2);
        cspace->setBounds(rvb({{-1, 1}, {-2, 2}}));
        csi = std::make_shared<oc::SpaceInformation>(sp, cspace);
        csi->setStateValidityChecker([](const ob::State *) { return true; });
        csi->setStatePropagator([](const ob::State *, const oc::Control *, double, ob::State *) {});
        csi->setup();
        std::vector<Coords> cs = {{-1, 0, -PI}, {0.3, 1.7, 1.0}, {3, 2, 3.0}, {0.3, 1.7, 1.0}};  // the last one duplicates a state
        for (auto &c : cs)
        {
            ob::State *x = sp->allocState();
            setCoords(sp, x, c);
            st.push_back(x);
        }
        for (int i = 0; i < 16; ++i)
        {
            oc::Control *c = cspace->allocControl();
            c->as<oc::RealVectorControlSpace::ControlType>()->values[0] = -1 + 0.125 * i;
            c->as<oc::RealVectorControlSpace::ControlType>()->values[1] = 2 - 0.25 * i;
            ctl.push_back(c);
        }
    }
};

static std::shared_ptr<ob::PlannerData> build(GraphEnv &E, const GraphSpec &g)
{
    std::shared_ptr<ob::PlannerData> pd;
    if (g.control)
        pd = std::make_shared<oc::PlannerData>(E.csi);
    else
        pd = std::make_shared<ob::PlannerData>(E.si);
    int n = g.n;
    for (int i = 0; i < n; ++i)
        pd->addVertex(ob::PlannerDataVertex(E.st[i], g.tag[i]));
    auto mark = [&](int i) {
        if (g.type[i] & 1)
            pd->markStartState(E.st[i]);
        if (g.type[i] & 2)
            pd->markGoalState(E.st[i]);
    };
    if (g.markDescending)
        for (int i = n - 1; i >= 0; --i)
            mark(i);
    else
        for (int i = 0; i < n; ++i)
            mark(i);
    for (int i = 0; i < n; ++i)
        for (int j = 0; j < n; ++j)
            if (g.edge[i * n + j])  // (i == j: a self-loop edge, which addEdge allows)
            {
                double w = g.edge[i * n + j] == 1 ? 0.5 : 2.0;
                if (g.control)
                    pd->addEdge(i, j, oc::PlannerDataEdgeControl(E.ctl[(i * n + j) % E.ctl.size()], 0.25 * (1 + i + 2 * j)), ob::Cost(w));
                else
                    pd->addEdge(i, j, ob::PlannerDataEdge(), ob::Cost(w));
            }
    if (g.removeVertex >= 0)
        pd->removeVertex((unsigned)g.removeVertex);
    return pd;
}

// description of a planner data object through its public API (what "isomorphic" compares, vertex order is preserved)
static std::string describe(GraphEnv &E, const ob::PlannerData &pd, bool control)
{
    std::string s = "V" + std::to_string(pd.numVertices()) + " E" + std::to_string(pd.numEdges()) + " S" + std::to_string(pd.numStartVertices()) + " G" + std::to_string(pd.numGoalVertices()) + ";";
    for (unsigned i = 0; i < pd.numVertices(); ++i)
    {
        auto &v = pd.getVertex(i);
        s += cstr(getCoords(E.sp, v.getState())) + " t" + std::to_string(v.getTag()) + (pd.isStartVertex(i) ? " start" : "") + (pd.isGoalVertex(i) ? " goal" : "") + ";";
    }
    s += "starts:";
    for (unsigned i = 0; i < pd.numStartVertices(); ++i)
        s += std::to_string(pd.getStartIndex(i)) + ",";
    s += "goals:";
    for (unsigned i = 0; i < pd.numGoalVertices(); ++i)
        s += std::to_string(pd.getGoalIndex(i)) + ",";
    for (unsigned i = 0; i < pd.numVertices(); ++i)
        for (unsigned j = 0; j < pd.numVertices(); ++j)
            if (pd.edgeExists(i, j))
            {
                ob::Cost w;
                pd.getEdgeWeight(i, j, &w);
                s += " " + std::to_string(i) + ">" + std::to_string(j) + ":" + vf::jnum(w.value());
                if (control)
                {
                    auto &e = static_cast<const oc::PlannerDataEdgeControl &>(pd.getEdge(i, j));
                    auto *c = e.getControl()->as<oc::RealVectorControlSpace::ControlType>();
                    s += "[" + vf::jnum(c->values[0]) + "," + vf::jnum(c->values[1]) + "@" + vf::jnum(e.getDuration()) + "]";
                }
            }
    return s;
}
// the reference description computed from the spec alone (independent of PlannerData's own bookkeeping)
static std::string expected(GraphEnv &E, const GraphSpec &g)
{
    std::vector<int> keep;
    for (int i = 0; i < g.n; ++i)
        if (i != g.removeVertex)
            keep.push_back(i);
    int nv = keep.size(), ne = 0, ns = 0, ng = 0;
    for (int i : keep)
    {
        ns += (g.type[i] & 1) != 0;
        ng += (g.type[i] & 2) != 0;
        for (int j : keep)
            if (g.edge[i * g.n + j])
                ++ne;
    }
    std::string s = "V" + std::to_string(nv) + " E" + std::to_string(ne) + " S" + std::to_string(ns) + " G" + std::to_string(ng) + ";";
    for (int i : keep)
        s += cstr(getCoords(E.sp, E.st[i])) + " t" + std::to_string(g.tag[i]) + ((g.type[i] & 1) ? " start" : "") + ((g.type[i] & 2) ? " goal" : "") + ";";
    s += "starts:";
    for (size_t k = 0; k < keep.size(); ++k)
        if (g.type[keep[k]] & 1)
            s += std::to_string(k) + ",";
    s += "goals:";
    for (size_t k = 0; k < keep.size(); ++k)
        if (g.type[keep[k]] & 2)
            s += std::to_string(k) + ",";
    for (size_t a = 0; a < keep.size(); ++a)
        for (size_t b = 0; b < keep.size(); ++b)
        {
            int i = keep[a], j = keep[b];
            if (g.edge[i * g.n + j])
            {
                s += " " + std::to_string(a) + ">" + std::to_string(b) + ":" + vf::jnum(g.edge[i * g.n + j] == 1 ? 0.5 : 2.0);
                if (g.control)
                {
                    auto *c = E.ctl[(i * g.n + j) % E.ctl.size()]->as<oc::RealVectorControlSpace::ControlType>();
                    s += "[" + vf::jnum(c->values[0]) + "," + vf::jnum(c->values[1]) + "@" + vf::jnum(0.25 * (1 + i + 2 * j)) + "]";
                }
            }
        }
    return s;
}
static std::string storeGraph(const ob::PlannerData &pd, bool control, bool &ok)
{
    std::ostringstream os;
    if (control)
    {
        oc::PlannerDataStorage st;
        ok = st.store(pd, os);
    }
    else
    {
        ob::PlannerDataStorage st;
        ok = st.store(pd, os);
    }
    return os.str();
}
static bool loadGraph(const std::string &bytes, ob::PlannerData &pd, bool control)
{
    std::istringstream is(bytes);
    if (control)
    {
        oc::PlannerDataStorage st;
        return st.load(is, pd);
    }
    ob::PlannerDataStorage st;
    return st.load(is, pd);
}
static void checkGraph(GraphEnv &E, const GraphSpec &g, const std::function<void(const std::string &, const std::string &)> &fail)
{
    auto pd = build(E, g);
    std::string want = expected(E, g);
    std::string K = std::string("C09|planner-data") + (g.control ? "-control" : "") + "|";
    std::string before = describe(E, *pd, g.control);
    if (before != want)
    {
        // classify: which attribute differs
        fail(K + "bookkeeping|" + (g.removeVertex >= 0 ? "after-removeVertex" : "marks"), "PlannerData describes itself as\n  " + before + "\nbut it was built as\n  " + want);
        return;
    }
    bool ok = false;
    std::string bytes = storeGraph(*pd, g.control, ok);
    if (!ok)
    {
        fail(K + "store-failed", "store() returned false");
        return;
    }
    std::shared_ptr<ob::PlannerData> in;
    if (g.control)
        in = std::make_shared<oc::PlannerData>(E.csi);
    else
        in = std::make_shared<ob::PlannerData>(E.si);
    if (!loadGraph(bytes, *in, g.control))
    {
        fail(K + "load-failed", "load() of a freshly stored archive returned false");
        return;
    }
    std::string after = describe(E, *in, g.control);
    if (after != want)
    {
        bool both = false;
        for (int i = 0; i < g.n; ++i)
            if (g.type[i] == 3 && i != g.removeVertex)
                both = true;
        fail(K + "roundtrip|" + (both ? "start-and-goal-vertex" : "other"), "store->load changed the graph:\n  stored " + want + "\n  loaded " + after);
    }
}

static void forEachGraph(int n, bool control, bool thorough, const std::function<void(const GraphSpec &)> &f)
{
    GraphSpec g;
    g.n = n;
    g.control = control;
    g.type.assign(n, 0);
    g.tag.assign(n, 0);
    g.edge.assign(n * n, 0);
    int nE = n * (n - 1);
    long nT = 1, nTag = 1, nEd = 1;
    for (int i = 0; i < n; ++i)
        nT *= 4;
    for (int i = 0; i < (thorough || n < 3 ? n : 1); ++i)
        nTag *= 2;
    for (int i = 0; i < nE; ++i)
        nEd *= 3;
    for (long t = 0; t < nT; ++t)
        for (long tg = 0; tg < nTag; ++tg)
            for (long e = 0; e < nEd; ++e)
                for (int desc = 0; desc < 2; ++desc)
                {
                    long x = t;
                    for (int i = 0; i < n; ++i, x /= 4)
                        g.type[i] = x % 4;
                    x = tg;
                    for (int i = 0; i < n; ++i, x /= 2)
                        g.tag[i] = (x % 2) ? 7 : 0;
                    x = e;
                    int k = 0;
                    for (int i = 0; i < n; ++i)
                        for (int j = 0; j < n; ++j)
                            if (i != j)
                            {
                                g.edge[i * n + j] = x % 3;
                                x /= 3;
                                ++k;
                            }
                    g.markDescending = desc;
                    if (n <= 1 && desc)
                        continue;
                    // self-loop edges (v -> v): every assignment for n <= 2, none for larger graphs
                    long nLoop = 1;
                    for (int i = 0; i < (n <= 2 ? n : 0); ++i)
                        nLoop *= 3;
                    for (long sl = 0; sl < nLoop; ++sl)
                    {
                        long y = sl;
                        for (int i = 0; i < n; ++i, y /= 3)
                            g.edge[i * n + i] = n <= 2 ? y % 3 : 0;
                        f(g);
                    }
                    continue;
                    f(g);
                }
}

static void runGraphs(const std::string &job, const vf::Args &a, vf::Report &rep)
{
    GraphEnv E;
    bool control = job.find("control") != std::string::npos;
    auto one = [&](const GraphSpec &g) {
        checkGraph(E, g, [&](const std::string &k, const std::string &w) { rep.fail(k, w, g.json()); });
        rep.evaluations++;
        rep.transitions += 2;
        rep.states++;
        vf::Hash h;
        h.adds(g.json());
        if (g.n >= 2)
            rep.nontrivial.insert(h.h);
        vf::Hash o;
        o.adds(expected(E, g));
        rep.outcomes.insert(o.h);
    };
    if (job == "graphs-small" || job == "graphs-control-small")
    {
        for (int n = 0; n <= 2; ++n)
            forEachGraph(n, control, a.thorough(), one);
        // graphs after removeVertex: all 3-vertex type/edge-sparse graphs with one vertex removed
        GraphSpec g;
        g.n = 3;
        g.control = control;
        g.tag = {0, 7, 0};
        for (int t = 0; t < 64; ++t)
            for (int rm = 0; rm < 3; ++rm)
                for (int ev = 0; ev < 8; ++ev)
                {
                    g.type = {t % 4, (t / 4) % 4, t / 16};
                    g.edge.assign(9, 0);
                    g.edge[0 * 3 + 1] = (ev & 1) ? 1 : 0;
                    g.edge[1 * 3 + 2] = (ev & 2) ? 2 : 0;
                    g.edge[2 * 3 + 0] = (ev & 4) ? 1 : 0;
                    g.removeVertex = rm;
                    g.markDescending = (t + rm) % 2;
                    one(g);
                }
        rep.bounds["graphs"] = "\"all graphs on <=2 vertices (4 vertex kinds, 2 tags, 3 edge states per ordered pair, both marking orders) + 1536 three-vertex graphs with one vertex removed\"";
    }
    else  // graphs-3 / graphs-control-3 : three vertices
    {
        if (a.thorough())
            forEachGraph(3, control, false, one);
        else
        {
            // curated: all type assignments x marking orders x 9 edge patterns
            GraphSpec g;
            g.n = 3;
            g.control = control;
            g.tag = {0, 7, 0};
            const int pats[9][6] = {{0, 0, 0, 0, 0, 0}, {1, 0, 0, 0, 0, 0}, {1, 2, 0, 0, 0, 0}, {1, 0, 2, 0, 1, 0}, {2, 2, 2, 2, 2, 2}, {0, 1, 0, 2, 0, 1}, {1, 1, 1, 0, 0, 0}, {0, 0, 0, 2, 1, 2}, {2, 0, 1, 0, 2, 0}};
            for (int t = 0; t < 64; ++t)
                for (int p = 0; p < 9; ++p)
                    for (int desc = 0; desc < 2; ++desc)
                    {
                        g.type = {t % 4, (t / 4) % 4, t / 16};
                        g.edge.assign(9, 0);
                        int k = 0;
                        for (int i = 0; i < 3; ++i)
                            for (int j = 0; j < 3; ++j)
                                if (i != j)
                                    g.edge[i * 3 + j] = pats[p][k++];
                        g.markDescending = desc;
                        one(g);
                    }
        }
        rep.bounds["graphs3"] = a.thorough() ? "\"all graphs on 3 vertices (64 kind assignments x 729 edge assignments x 2 marking orders)\"" : "\"64 kind assignments x 9 edge patterns x 2 marking orders\"";
    }
    GraphSpec s;
    s.n = 2;
    s.type = {1, 2};
    s.tag = {0, 7};
    s.edge = {0, 1, 0, 0};
    s.control = control;
    rep.sample(s.json());
}

// ================= (d) faults on planner-data archives =================
static void runFaults(const std::string &job, const vf::Args &a, vf::Report &rep)
{
    GraphEnv E;
    bool control = job.find("control") != std::string::npos;
    std::vector<GraphSpec> curated;
    {
        GraphSpec g;
        g.control = control;
        g.n = 3;
        g.type = {1, 0, 2};
        g.tag = {0, 7, 0};
        g.edge = {0, 1, 0, 0, 0, 2, 1, 0, 0};
        curated.push_back(g);
        g.n = 1;
        g.type = {1};
        g.tag = {7};
        g.edge = {0};
        curated.push_back(g);
        g.n = 2;
        g.type = {2, 1};
        g.tag = {0, 0};
        g.edge = {0, 2, 1, 0};
        curated.push_back(g);
        g.n = 0;
        g.type = {};
        g.tag = {};
        g.edge = {};
        curated.push_back(g);
    }
    for (auto &g : curated)
    {
        auto pd = build(E, g);
        bool ok;
        std::string bytes = storeGraph(*pd, control, ok);
        std::string want = expected(E, g);
        for (size_t cut = 0; cut < bytes.size(); ++cut)
        {
            std::shared_ptr<ob::PlannerData> in;
            if (control)
                in = std::make_shared<oc::PlannerData>(E.csi);
            else
                in = std::make_shared<ob::PlannerData>(E.si);
            g_log.errors = 0;
            bool r = loadGraph(bytes.substr(0, cut), *in, control);
            if (r && describe(E, *in, control) != want)
                rep.fail(std::string("C09|planner-data") + (control ? "-control" : "") + "|truncation-accepted",
                         "archive truncated to " + std::to_string(cut) + " of " + std::to_string(bytes.size()) + " bytes: load() returned true with different content",
                         "{\"part\":\"graph-trunc\",\"control\":" + std::string(control ? "true" : "false") + ",\"graph\":" + g.json() + ",\"cut\":" + std::to_string(cut) + "}");
            else if (!r && g_log.errors == 0)
                rep.fail(std::string("C09|planner-data") + (control ? "-control" : "") + "|truncation-unreported", "load() returned false without reporting an error",
                         "{\"part\":\"graph-trunc\",\"control\":" + std::string(control ? "true" : "false") + ",\"graph\":" + g.json() + ",\"cut\":" + std::to_string(cut) + "}");
            rep.evaluations++;
            rep.transitions++;
            vf::Hash h;
            h.adds(g.json());
            h.add(cut);
            rep.nontrivial.insert(h.h);
            vf::Hash o;
            o.add(r);
            o.add(g_log.errors > 0);
            rep.outcomes.insert(o.h);
        }
        rep.states++;
        rep.bounds["truncation_offsets_graph" + std::to_string(g.n) + (control ? "c" : "")] = std::to_string(bytes.size());
        // foreign space signature: load into planner data over every other space of the catalogue
        for (auto &other : spaceNames(false))
        {
            SpaceCfg oc2 = makeSpace(other, 0);
            std::vector<int> s1, s2;
            E.sp->computeSignature(s1);
            oc2.space->computeSignature(s2);
            if (s1 == s2)
                continue;
            std::shared_ptr<ob::PlannerData> in;
            auto osi = std::make_shared<ob::SpaceInformation>(oc2.space);
            std::shared_ptr<oc::SpaceInformation> ocsi;
            if (control)
            {
                auto cs2 = std::make_shared<oc::RealVectorControlSpace>(oc2.space, 2);
                cs2->setBounds(rvb({{-1, 1}, {-2, 2}}));
                ocsi = std::make_shared<oc::SpaceInformation>(oc2.space, cs2);
                in = std::make_shared<oc::PlannerData>(ocsi);
            }
            else
                in = std::make_shared<ob::PlannerData>(osi);
            int rc = isolated([&] { return loadGraph(bytes, *in, control) ? 1 : 0; });
            rep.metrics["loud_rejections_by_exception_or_abort"] += rc >= 100;
            if (rc == 1)
                rep.fail(std::string("C09|planner-data") + (control ? "-control" : "") + "|foreign-signature-accepted", "archive over SE(2) was accepted by planner data over " + other,
                         "{\"part\":\"graph-sig\",\"control\":" + std::string(control ? "true" : "false") + ",\"other\":" + vf::jesc(other) + "}");
            rep.evaluations++;
            rep.transitions++;
        }
        // foreign markers: the other storage classes must reject these bytes
        {
            g_log.errors = 0;
            std::shared_ptr<ob::PlannerData> in;
            if (!control)
                in = std::make_shared<oc::PlannerData>(E.csi);
            else
                in = std::make_shared<ob::PlannerData>(E.si);
            int rc = isolated([&] { return loadGraph(bytes, *in, !control) ? 1 : 0; });
            rep.metrics["loud_rejections_by_exception_or_abort"] += rc >= 100;
            if (rc == 1)
                rep.fail("C09|planner-data|foreign-marker-accepted", std::string(control ? "a control archive was accepted by base::PlannerDataStorage" : "a geometric archive was accepted by control::PlannerDataStorage"),
                         "{\"part\":\"graph-marker\",\"control\":" + std::string(control ? "true" : "false") + "}");
            rc = isolated([&] {
                g_log.errors = 0;
                ob::StateStorage ss(E.sp);
                std::istringstream is(bytes);
                ss.load(is);
                return g_log.errors == 0 ? 1 : 0;
            });
            rep.metrics["loud_rejections_by_exception_or_abort"] += rc >= 100;
            if (rc == 1)
                rep.fail("C09|state-storage|foreign-marker-silent", "a planner-data archive was loaded by StateStorage without any error report", "{\"part\":\"graph-marker\",\"control\":false}");
            rep.evaluations += 2;
            rep.transitions += 2;
        }
    }
    // a state archive fed to the planner-data loader
    {
        std::string bytes = storeStates(E.sp, {E.st[0], E.st[1]});
        std::shared_ptr<ob::PlannerData> in = control ? std::shared_ptr<ob::PlannerData>(std::make_shared<oc::PlannerData>(E.csi)) : std::make_shared<ob::PlannerData>(E.si);
        int rc = isolated([&] { return loadGraph(bytes, *in, control) ? 1 : 0; });
        rep.metrics["loud_rejections_by_exception_or_abort"] += rc >= 100;
        if (rc == 1)
            rep.fail("C09|planner-data|foreign-marker-accepted", "a StateStorage archive was accepted as planner data", "{\"part\":\"graph-marker\",\"control\":false}");
        rep.evaluations++;
        rep.transitions++;
    }
    rep.sample("{\"part\":\"graph-trunc\",\"graph\":" + curated[0].json() + ",\"cut\":17}");
}

int main(int argc, char **argv)
{
    ompl::msg::useOutputHandler(&g_log);
    ompl::msg::setLogLevel(ompl::msg::LOG_WARN); if (getenv("C09_VERBOSE")) ompl::msg::restorePreviousOutputHandler();
    vf::Harness H;
    H.property = "C09";
    H.jobs = [](const vf::Args &a) {
        std::vector<std::string> j;
        for (auto &n : spaceNames(a.thorough()))
            j.push_back("states-" + n);
        j.push_back("partial");
        for (const char *n : {"R2", "SE2", "SE3", "CompoundW", "Nested", "Hybrid", "WrapSE2", "Discrete"})
            j.push_back(std::string("storage-") + n);
        for (const char *g : {"graphs-small", "graphs-3", "graphs-control-small", "graphs-control-3", "faults", "faults-control"})
            j.push_back(g);
        return j;
    };
    H.run = [](const std::string &job, const vf::Args &a, vf::Report &r) {
        if (job.substr(0, 7) == "states-")
            runStates(job.substr(7), a, r);
        else if (job == "partial")
            runPartial(a, r);
        else if (job.substr(0, 8) == "storage-")
            runStorage(job.substr(8), a, r);
        else if (job.substr(0, 6) == "graphs")
            runGraphs(job, a, r);
        else
            runFaults(job, a, r);
        r.rule = "states: every lattice state x differently initialised targets through copyState, cloneState, serialize/deserialize, reals round trip, ScopedState; partial copies between all "
                 "ordered pairs of 6 related spaces; StateStorage: all ordered lists of <=3 lattice states; PlannerData (geometric and with controls): all graphs on <=2 (quick) / <=3 (thorough) "
                 "vertices (standard/start/goal/both, two tags, three edge states per ordered pair, both marking orders, graphs after removeVertex) stored and loaded, compared with a description "
                 "computed from the spec; faults: EVERY truncation offset of curated archives, every foreign space signature of the catalogue, every foreign archive marker";
        r.assumptions = {"spaces with non-real components (discrete) are exempt from the reals round trip: copyToReals is documented to transfer real values only",
                         "vertex order is preserved by store/load, so graphs are compared index-wise (a stronger relation than isomorphism that the format guarantees)",
                         "rejected-and-reported = load() returns false (PlannerDataStorage) or an error is logged through msg::OutputHandler (StateStorage returns void)",
                         "leaks on the error path are not part of this property"};
    };
    H.replay = [](const vf::JV &v) {
        bool failed = false;
        auto fail = [&](const std::string &k, const std::string &w) {
            printf("%s: %s\n", k.c_str(), w.c_str());
            failed = true;
        };
        std::string part = v["part"].s;
        if (part == "graph")
        {
            GraphEnv E;
            GraphSpec g;
            g.n = v["n"].i();
            for (auto &x : v["type"].a)
                g.type.push_back(x.i());
            for (auto &x : v["tag"].a)
                g.tag.push_back(x.i());
            for (auto &x : v["edge"].a)
                g.edge.push_back(x.i());
            g.markDescending = v["desc"].b;
            g.removeVertex = v["remove"].i();
            g.control = v["control"].b;
            checkGraph(E, g, fail);
            return failed;
        }
        vf::Args a;
        vf::Report r;
        if (part == "states")
            runStates(v["space"].s, a, r);
        else if (part == "partial")
            runPartial(a, r);
        else if (part.substr(0, 7) == "storage")
            runStorage(v["space"].s, a, r);
        else
            runFaults(v["control"].b ? "faults-control" : "faults", a, r);
        for (auto &f : r.failures)
            fail(f.key, f.what);
        return failed;
    };
    return vf::main(argc, argv, H);
}
