// C03 for the control planners: the termination condition first fires at EVERY evaluation index k = 0..K+5, crossed with call
// histories (interrupt / resume / clear / getPlannerData / switch to a new query), on the real control planners of C02's worlds.
// Reuses C02's problem set-up and path oracle (re-propagation with an independent copy of the system).
#define C02_NO_MAIN
#include "C02_control.cpp"
#include <ompl/base/PlannerData.h>

static const int BIGC = 150;

struct HExec
{
    CCfg cfg;
    std::vector<std::string> hist;  // S<k> solve with budget k | SB solve(BIGC) | C clear | D getPlannerData | Q clear + switch to the reversed query
    std::map<size_t, int> dev;
    std::string json() const
    {
        std::string h = "[";
        for (size_t i = 0; i < hist.size(); ++i)
            h += (i ? "," : "") + vf::jesc(hist[i]);
        return "{" + cfg.json() + ",\"counting\":" + (cfg.counting ? "true" : "false") + ",\"hist\":" + h + "],\"dev\":" + vc::devJson(dev) + "}";
    }
    static HExec fromJson(const vf::JV &v)
    {
        HExec e;
        e.cfg = CCfg::fromJson(v);
        e.cfg.counting = v["counting"].b;
        for (auto &x : v["hist"].a)
            e.hist.push_back(x.s);
        for (auto &d : v["dev"].a)
            e.dev[(size_t)d[0].i()] = (int)d[1].i();
        return e;
    }
};

struct HResult
{
    long firstSolutionEval = -1;
    uint64_t obs = 0;
    long evals = 0;
};

static std::vector<vc::Point> executeHistory(const HExec &e, const std::function<void(const std::string &, const std::string &)> &fail, HResult *res = nullptr)
{
    const std::string &pl = e.cfg.planner;
    vc::Oracle so;
    so.salt = 77;
    std::unique_ptr<CProblem> P;
    {
        vc::Install i(so);
        P = std::make_unique<CProblem>(e.cfg);
    }
    ob::StateSpacePtr space = P->space;
    auto *cnt = dynamic_cast<vw::CountingR2 *>(space.get());
    vc::Oracle o;
    o.dev = e.dev;
    o.horizon = 400000;
    vf::Hash obs;
    bool unwound = false;
    std::vector<ob::ProblemDefinitionPtr> pdefs{P->pdef};
    ob::ProblemDefinitionPtr cur = P->pdef;
    bool first = true;
    std::string switched;
    {
        vc::Install inst(o);
        try
        {
            for (auto &op : e.hist)
            {
                if (op[0] == 'S')
                {
                    int budget = op == "SB" ? BIGC : atoi(op.c_str() + 1);
                    size_t before = cur->getSolutionCount();
                    bool hadTop = before > 0;
                    ob::PlannerSolution topBefore(nullptr);
                    if (hadTop)
                        topBefore = cur->getSolutions()[0];
                    long calls = 0, firstTrue = -1, firstSol = -1;
                    ob::PlannerTerminationCondition ptc([&] {
                        ++calls;
                        if (first && firstSol < 0 && cur->getSolutionCount() > 0)
                            firstSol = calls;
                        bool t = calls > budget;
                        if (t && firstTrue < 0)
                            firstTrue = calls;
                        if (calls > budget + 2000)
                            throw vc::Horizon();
                        return t;
                    });
                    ob::PlannerStatus st = P->planner->solve(ptc);
                    if (res)
                    {
                        res->evals += calls;
                        if (first)
                            res->firstSolutionEval = firstSol;
                    }
                    first = false;
                    long extra = firstTrue < 0 ? 0 : calls - firstTrue;
                    std::string where = " [history step " + op + (switched.empty() ? "" : ", after " + switched) + "]";
                    if (extra > 50)
                        fail("C03|late-return|" + pl, "solve() evaluated the termination condition " + std::to_string(extra) + " more times after it first became true" + where);
                    // status vs. what the problem definition now holds
                    size_t now = cur->getSolutionCount();
                    auto s = (ob::PlannerStatus::StatusType)st;
                    bool solutionStatus = s == ob::PlannerStatus::EXACT_SOLUTION || s == ob::PlannerStatus::APPROXIMATE_SOLUTION;
                    if (!solutionStatus && now != before)
                        fail("C03|non-solution-status-adds-path|" + pl, "status " + st.asString() + " but the problem definition gained " + std::to_string(now - before) + " solution path(s)" + where);
                    if (solutionStatus && now == 0)
                        fail("C03|solution-status-without-path|" + pl, "status " + st.asString() + " but the problem definition holds no solution" + where);
                    if (solutionStatus && now > 0)
                    {
                        if (s == ob::PlannerStatus::EXACT_SOLUTION && !cur->hasExactSolution())
                            fail("C03|status-exact-but-approximate|" + pl, "status Exact solution but the problem definition's best solution is flagged approximate" + where);
                        if (s == ob::PlannerStatus::APPROXIMATE_SOLUTION && !cur->hasApproximateSolution())
                            fail("C03|status-approximate-but-exact|" + pl + (hadTop && !topBefore.approximate_ ? "|exact-solution-predates-this-call" : ""),
                                 "status Approximate solution but the problem definition's best solution is not flagged approximate" + where);
                    }
                    // every reported path of the CURRENT query replays through the propagator, starts at the current start
                    checkPaths(P.get(), e.cfg, cur.get(),
                               [&](const std::string &k, const std::string &w) {
                                   std::string kk = k;
                                   if (kk.substr(0, 4) == "C02|")
                                       kk = "C03|" + kk.substr(4);
                                   if (!switched.empty() && kk.find("not-at-start") != std::string::npos)
                                       kk = "C03|stale-query-after-" + switched + "|" + pl;
                                   fail(kk, w + where);
                               },
                               obs);
                    if (hadTop && now > 0)
                    {
                        ob::PlannerSolution top = cur->getSolutions()[0];
                        bool worse = (!topBefore.approximate_ && top.approximate_) || (topBefore.approximate_ && top.approximate_ && top.difference_ > topBefore.difference_ + 1e-9);
                        if (worse)
                            fail("C03|resume-worsens-solution|" + pl, "a continued solve() made the best reported solution worse" + where);
                    }
                    obs.add((int)s);
                    obs.add((int)now);
                }
                else if (op == "C")
                {
                    P->planner->clear();
                    cur->clearSolutionPaths();
                    switched = "clear";
                }
                else if (op == "D")
                {
                    ob::PlannerData pd(P->si);
                    P->planner->getPlannerData(pd);
                    obs.add((int)pd.numVertices());
                    // every vertex state of the planner data is a valid, in-bounds state
                    for (unsigned i = 0; i < pd.numVertices(); ++i)
                    {
                        const ob::State *s = pd.getVertex(i).getState();
                        if (!s)
                            fail("C03|planner-data-null-state|" + pl, "getPlannerData() returned a vertex without a state");
                        else if (!space->satisfiesBounds(s) || !P->isValid(s))
                            fail("C03|planner-data-invalid-state|" + pl, "getPlannerData() returned an invalid or out-of-bounds vertex state");
                    }
                }
                else if (op == "Q")
                {
                    // forget the old query completely: clear() then a new definition with start and goal exchanged
                    P->planner->clear();
                    auto pd2 = std::make_shared<ob::ProblemDefinition>(P->si);
                    ob::ScopedState<> s(space), g(space);
                    setXY(space.get(), s.get(), P->map.gx + 0.763, P->map.gy + 0.757, 0.3);
                    setXY(space.get(), g.get(), P->map.sx + 0.263, P->map.sy + 0.257, 1.9);
                    pd2->addStartState(s);
                    pd2->setGoalState(g, e.cfg.threshold);
                    P->planner->setProblemDefinition(pd2);
                    pdefs.push_back(pd2);
                    cur = pd2;
                    switched = "clear+setProblemDefinition";
                }
            }
        }
        catch (vc::Horizon &)
        {
            unwound = true;
            fail("C03|never-stops-evaluating|" + pl, "solve() kept evaluating the termination condition 2000 times after it became true, or drew more than 400000 random numbers");
        }
        catch (ompl::Exception &ex)
        {
            fail("C03|exception|" + pl, std::string("exception: ") + ex.what());
        }
    }
    if (res)
        res->obs = obs.h;
    // teardown: nothing may stay alive, nothing may be freed twice
    cur.reset();
    pdefs.clear();
    P.reset();
    if (cnt && !unwound)
    {
        if (cnt->badFrees)
            fail("C03|double-free|" + pl + "|free@" + cnt->badFreeSite, std::to_string(cnt->badFrees) + " state(s) were freed twice (or never allocated by this space), first from " + cnt->badFreeSite);
        for (auto &l : cnt->leakSites())
            fail("C03|state-leak|" + pl + "|alloc@" + l.first, std::to_string(l.second) + " state(s) allocated in " + l.first + " are still alive after planner, problem definitions and space information were destroyed");
    }
    return o.trace;
}

static std::vector<CCfg> hconfigs(const std::string &planner, bool thorough)
{
    std::vector<CCfg> v;
    auto add = [&](const std::string &map, const std::string &sys, bool counting) {
        CCfg c;
        c.planner = planner;
        c.map = map;
        c.system = sys;
        c.counting = counting;
        v.push_back(c);
    };
    add("wallgap4", "point", true);
    add("empty4", "unicycle", false);
    if (thorough)
    {
        add("enclosed4", "point", true);
        add("diag4", "point", true);
    }
    return v;
}

static std::vector<std::vector<std::string>> hhistories(int k, bool thorough)
{
    auto S = [](int b) { return "S" + std::to_string(b); };
    std::vector<std::vector<std::string>> h = {
        {S(k)},
        {S(k), S(k + 30)},
        {S(k), "C", S(k), "SB"},
        {S(k), "D", S(k + 10)},
        {S(k), "Q", S(k), S(k + 40)},
        {"SB", "C", S(k)},
        {S(k), "S0"},  // resumed with an already-expired condition
    };
    if (thorough)
    {
        h.push_back({S(k), S(k), S(k), "SB"});
        h.push_back({S(k), "D", "C", "D", S(k + 5)});
        h.push_back({"SB", "Q", S(k), "Q", S(k + 20)});
        h.push_back({S(k), "C", "C", S(k + 3), "D"});
    }
    return h;
}

int main(int argc, char **argv)
{
    ompl::msg::setLogLevel(ompl::msg::LOG_NONE);
    vf::Harness H;
    H.property = "C03";
    H.jobs = [](const vf::Args &) { return std::vector<std::string>{"ctl-RRT", "ctl-RRTintermediate", "ctl-SST", "ctl-EST", "ctl-KPIECE1", "ctl-PDST", "ctl-SyclopRRT", "ctl-SyclopEST"}; };
    H.run = [](const std::string &job, const vf::Args &a, vf::Report &rep) {
        const std::string planner = job.substr(4);
        int jobCrashes = 0;
        for (auto cfg : hconfigs(planner, a.thorough()))
        {
            if (a.expired() || jobCrashes >= 3)
            {
                rep.exhaustive = false;
                rep.caps.push_back("deadline or crash cap: configurations of " + planner + " left unexplored");
                break;
            }
            std::set<std::string> skip;
            for (;;)
            {
                vg::Group G;
                G.onChildStart = [] { vf::virtualSleep() = true; };
                auto body = [&](vf::Report &r) {
                    auto runOne = [&](const HExec &e, HResult *res) -> std::vector<vc::Point> {
                        std::string ej = e.json();
                        if (skip.count(ej))
                            return {};
                        G.announce(ej);
                        alarm(8);
                        long a0 = vf::asanErrorCount();
                        HResult local;
                        auto tr = executeHistory(e, [&](const std::string &k, const std::string &w) { r.fail(k, w, ej); }, res ? res : &local);
                        if (vf::asanErrorCount() != a0)
                            r.fail("C03|memory|" + planner, "AddressSanitizer report during the call history or teardown", ej);
                        alarm(0);
                        r.evaluations++;
                        r.transitions += (res ? res : &local)->evals;
                        r.outcomes.insert((res ? res : &local)->obs);
                        r.states++;
                        vf::Hash h;
                        h.adds(ej);
                        if (e.hist.size() > 1 || !e.dev.empty())
                            r.nontrivial.insert(h.h);
                        if (r.samples.size() < 2 && (r.evaluations % 97) == 0)
                            r.sample(ej);
                        return tr;
                    };
                    // K: the evaluation at which the default run first holds a solution
                    HExec probe{cfg, {"SB"}, {}};
                    HResult pr;
                    runOne(probe, &pr);
                    {
                        // canon-on-replay gate: the same history twice gives the same observation
                        HResult p2;
                        void *pad = malloc(3333);
                        executeHistory(probe, [](const std::string &, const std::string &) {}, &p2);
                        free(pad);
                        if (p2.obs != pr.obs)
                            r.fail("C03|nondeterministic-replay|" + planner, "the same history and answer stream gave two different results", probe.json());
                        r.validated++;
                    }
                    int K = pr.firstSolutionEval < 0 ? 40 : (int)std::min<long>(pr.firstSolutionEval, a.thorough() ? 100 : 45);
                    r.metrics["K_" + cfg.map + "_" + cfg.system] = K;
                    for (int k = 0; k <= K + 5; ++k)
                    {
                        if (a.expired())
                        {
                            r.exhaustive = false;
                            r.caps.push_back("deadline inside " + planner);
                            break;
                        }
                        for (auto &h : hhistories(k, a.thorough()))
                        {
                            HExec e{cfg, h, {}};
                            runOne(e, nullptr);
                        }
                        if (a.thorough())
                        {
                            // single deviations of the answer stream for the interrupt+resume history
                            HExec base{cfg, {"S" + std::to_string(k), "S" + std::to_string(k + 30)}, {}};
                            vc::DBE dbe;
                            dbe.D = 1;
                            dbe.N = 16;
                            dbe.expired = [&] { return a.expired(); };
                            dbe.explore([&](const std::map<size_t, int> &dev) -> std::vector<vc::Point> {
                                HExec e = base;
                                e.dev = dev;
                                return runOne(e, nullptr);
                            });
                        }
                    }
                };
                vg::Outcome out = G.run(body, rep, 400);
                if (out.clean)
                    break;
                if (out.current.empty())
                {
                    rep.exhaustive = false;
                    rep.caps.push_back("child died before announcing an execution in " + planner);
                    break;
                }
                std::string curj = out.current;
                vg::Group G2;
                G2.onChildStart = [] { vf::virtualSleep() = true; };
                vf::Report sr;
                vg::Outcome single = G2.run(
                    [&](vf::Report &r2) {
                        vf::JParser jp(curj);
                        vf::JV v = jp.parse();
                        HExec e = HExec::fromJson(v);
                        alarm(80);
                        executeHistory(e, [&](const std::string &k, const std::string &w) { r2.fail(k, w, curj); });
                        alarm(0);
                    },
                    sr, 100);
                if (!single.clean)
                    rep.fail(single.timeout || single.sig == SIGALRM ? "C03|hang|ctl-" + planner : "C03|crash|ctl-" + planner + "|signal-" + std::to_string(single.sig), "the call history or teardown crashed or did not return within 80 s", curj);
                else
                {
                    rep.metrics["slow_executions"] += 1;
                    for (auto &f : sr.failures)
                        rep.fail(f.key, f.what, f.replay);
                }
                skip.insert(curj);
                if (!single.clean && ++jobCrashes >= 3)
                    break;
            }
        }
        rep.rule = "8 control planners x worlds (point system on the allocation-counting R^2, unicycle on SE(2)): the termination condition first fires at EVERY evaluation index k = 0..K+5 (K = "
                   "first evaluation at which the default run holds a solution) x 6 (thorough 10) call histories over solve / clear / getPlannerData / clear+switch to the reversed query "
                   "(thorough: + every single deviation of the answer stream among the first 16 choice points of interrupt+resume); states = histories, transitions = termination-condition "
                   "evaluations";
        rep.assumptions = {"a solve() may evaluate the termination condition up to 50 more times after it first became true", "leak accounting on the point system only (counting R^2)"};
    };
    H.replay = [](const vf::JV &v) {
        HExec e = HExec::fromJson(v);
        bool failed = false;
        vf::virtualSleep() = true;
        alarm(80);
        executeHistory(e, [&](const std::string &k, const std::string &w) {
            printf("%s: %s\n", k.c_str(), w.c_str());
            failed = true;
        });
        return failed;
    };
    return vf::main(argc, argv, H);
}
