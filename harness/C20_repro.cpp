// C20 — seeded reproducibility. (1) E2 over histories of the RNG API, every history in fresh processes; (2) bounded differential
// enumeration of planners x problems x seeds x budgets across address-layout / heap-content environments (oracle OFF).
#include "path_oracle.hpp"
#include "asanhook.hpp"
#include "notime.hpp"
#include <fcntl.h>
#include <sys/personality.h>
#include <sys/wait.h>

using namespace vw;

// ===================== (1) RNG API =====================
// ops: "N" new generator; "D<i><k>" draw kind k from generator i; "L<i>" setLocalSeed(i, 777)
static const int KINDS = 4;
static void draw(ompl::RNG &r, int kind, std::vector<double> &out)
{
    switch (kind)
    {
        case 0:
            out.push_back(r.uniform01());
            break;
        case 1:
            out.push_back(r.gaussian01());
            break;
        case 2:
        {
            std::vector<double> v(3);
            r.uniformNormalVector(v);
            out.insert(out.end(), v.begin(), v.end());
            break;
        }
        default:
        {
            double q[4];
            r.quaternion(q);
            out.insert(out.end(), q, q + 4);
            out.push_back(r.uniformInt(-3, 1000));
        }
    }
}
// runs a history in a forked child (the seed generator is process-global and must be untouched in the parent);
// returns per-generator observation streams
static std::vector<std::vector<double>> runHistory(unsigned seed, const std::vector<std::string> &hist, bool &ok)
{
    int fd[2];
    if (pipe(fd))
        exit(2);
    fflush(stdout);
    pid_t pid = fork();
    if (pid == 0)
    {
        close(fd[0]);
        ompl::RNG::setSeed(seed);
        std::vector<std::unique_ptr<ompl::RNG>> g;
        std::vector<std::vector<double>> obs;
        for (auto &op : hist)
        {
            if (op[0] == 'N')
            {
                g.push_back(std::make_unique<ompl::RNG>());
                obs.emplace_back();
                obs.back().push_back((double)g.back()->getLocalSeed());
            }
            else if (op[0] == 'D')
                draw(*g[op[1] - '0'], op[2] - '0', obs[op[1] - '0']);
            else if (op[0] == 'L')
            {
                g[op[1] - '0']->setLocalSeed(777);
                obs[op[1] - '0'].push_back(-777);
            }
        }
        std::string buf;
        uint64_t n = obs.size();
        buf.append((char *)&n, 8);
        for (auto &o : obs)
        {
            uint64_t m = o.size();
            buf.append((char *)&m, 8);
            buf.append((char *)o.data(), m * 8);
        }
        (void)!write(fd[1], buf.data(), buf.size());
        _exit(0);
    }
    close(fd[1]);
    std::string buf;
    char tmp[4096];
    ssize_t k;
    while ((k = read(fd[0], tmp, sizeof tmp)) > 0)
        buf.append(tmp, k);
    close(fd[0]);
    int st;
    waitpid(pid, &st, 0);
    ok = WIFEXITED(st) && WEXITSTATUS(st) == 0 && buf.size() >= 8;
    std::vector<std::vector<double>> obs;
    if (!ok)
        return obs;
    const char *p = buf.data();
    uint64_t n = *(uint64_t *)p;
    p += 8;
    for (uint64_t i = 0; i < n; ++i)
    {
        uint64_t m = *(uint64_t *)p;
        p += 8;
        obs.emplace_back((double *)p, (double *)p + m);
        p += m * 8;
    }
    return obs;
}

static void runRngApi(unsigned seed, const vf::Args &a, vf::Report &rep)
{
    int depth = a.thorough() ? 6 : 5;
    int maxGen = 2;
    std::map<std::string, std::vector<double>> solo;  // (generator index | its own op subsequence) -> stream
    std::vector<std::string> hist;
    auto key = [](const std::vector<std::string> &h) {
        std::string s;
        for (auto &o : h)
            s += o + " ";
        return s;
    };
    std::function<void()> rec = [&]() {
        if (a.expired())
        {
            rep.exhaustive = false;
            return;
        }
        int ngen = 0;
        for (auto &o : hist)
            ngen += o[0] == 'N';
        if (!hist.empty())
        {
            std::string rj = "{\"part\":\"rng\",\"seed\":" + std::to_string(seed) + ",\"hist\":" + vf::jstrs(hist) + "}";
            bool ok1, ok2;
            auto o1 = runHistory(seed, hist, ok1);
            auto o2 = runHistory(seed, hist, ok2);
            rep.evaluations++;
            rep.transitions += 2;
            rep.states++;
            if (!ok1 || !ok2)
                rep.fail("C20|rng|child-failed", "history process failed", rj);
            else if (o1 != o2)
                rep.fail("C20|rng|two-runs-differ", "the same seed and history produced different streams in two processes", rj);
            else
            {
                rep.validated++;
                // per generator: depends only on the seed and i (its own subsequence run solo must give the same stream)
                for (int i = 0; i < ngen; ++i)
                {
                    std::vector<std::string> sub;
                    for (int j = 0; j <= i; ++j)
                        sub.push_back("N");
                    bool interleaved = false, sawOther = false;
                    for (auto &o : hist)
                    {
                        if (o[0] != 'N' && o[1] - '0' == i)
                        {
                            sub.push_back(o);
                            if (sawOther)
                                interleaved = true;
                        }
                        else if (o[0] != 'N')
                            sawOther = true;
                    }
                    std::string k = std::to_string(i) + "|" + key(sub);
                    auto it = solo.find(k);
                    if (it == solo.end())
                    {
                        bool ok;
                        auto so = runHistory(seed, sub, ok);
                        rep.transitions++;
                        it = solo.emplace(k, ok ? so[i] : std::vector<double>{}).first;
                    }
                    if (it->second != o1[i])
                        rep.fail("C20|rng|depends-on-other-generators", "the stream of generator " + std::to_string(i) + " changed when draws on other generators were interleaved", rj);
                    if (interleaved)
                    {
                        vf::Hash h;
                        h.adds(rj);
                        h.add(i);
                        rep.nontrivial.insert(h.h);
                    }
                    // reseeding reproduces the stream of a fresh RNG(localSeed)
                    size_t lastL = std::string::npos;
                    for (size_t j = 0; j < sub.size(); ++j)
                        if (sub[j][0] == 'L')
                            lastL = j;
                    if (lastL != std::string::npos)
                    {
                        ompl::RNG fresh(777);
                        std::vector<double> want;
                        for (size_t j = lastL + 1; j < sub.size(); ++j)
                            draw(fresh, sub[j][2] - '0', want);
                        std::vector<double> got(o1[i].end() - want.size(), o1[i].end());
                        if (got != want)
                            rep.fail("C20|rng|reseed-not-reproduced", "after setLocalSeed the generator does not reproduce the stream of a fresh RNG with that seed (cached values survive the reseed)", rj);
                    }
                }
                vf::Hash o;
                for (auto &s : o1)
                    for (double d : s)
                        o.addd(d);
                rep.outcomes.insert(o.h);
            }
            if (rep.samples.size() < 2 && hist.size() == (size_t)depth && (rep.evaluations % 1009) == 0)
                rep.sample(rj);
        }
        if ((int)hist.size() == depth)
            return;
        std::vector<std::string> ops;
        if (ngen < maxGen)
            ops.push_back("N");
        for (int i = 0; i < ngen; ++i)
        {
            for (int k = 0; k < KINDS; ++k)
                ops.push_back(std::string("D") + char('0' + i) + char('0' + k));
            ops.push_back(std::string("L") + char('0' + i));
        }
        for (auto &o : ops)
        {
            hist.push_back(o);
            rec();
            hist.pop_back();
        }
    };
    rec();
    rep.bounds["rng_history_depth"] = std::to_string(depth);
}

// ===================== (2) planners across layouts =====================
struct Point
{
    std::string map, sampler, space;
    int budget;
};
static std::vector<Point> points(bool thorough)
{
    std::vector<Point> p;
    for (int b : {20, 100, 300})
    {
        p.push_back({"maze6", "default", "R2", b});
        p.push_back({"maze6", "snap", "R2", b});
        p.push_back({"wallgap4", "default", "SE2", b});
        p.push_back({"wallgap4", "default", "R4pin", b});  // random linear default projection with a zero-extent dimension
        if (thorough)
            p.push_back({"corridor6", "snap", "SE2", b});
    }
    return p;
}
// child: one planner, one seed; runs every point in sequence, prints one hash per point
static int childMain(const std::string &planner, unsigned seed, bool thorough, int prealloc)
{
    ompl::msg::setLogLevel(ompl::msg::LOG_NONE);
    vf::virtualSleep() = true;
    std::vector<void *> pads;
    for (int i = 0; i < prealloc; ++i)
        pads.push_back(malloc(48 + 16 * (i % 7)));
    ompl::RNG::setSeed(seed);
    for (auto &pt : points(thorough))
    {
        Cfg c;
        c.planner = planner;
        c.map = pt.map;
        c.sampler = pt.sampler;
        c.space = pt.space;
        c.budget = pt.budget;
        uint64_t h = 0;
        alarm(20);
        try
        {
            Problem P(c);
            auto st = P.solve(c.budget);
            h = vo::observe(P, st);
        }
        catch (ompl::Exception &)
        {
            h = 0xE0CE;
        }
        alarm(0);
        printf("%016lx\n", (unsigned long)h);
        fflush(stdout);
    }
    return 0;
}
struct Layout
{
    const char *name;
    bool noAslr;
    int prealloc;
    const char *asan;
};
static const Layout LAYOUTS[] = {
    {"aslr", false, 0, "malloc_fill_byte=190"},
    {"no-aslr", true, 0, "malloc_fill_byte=190"},
    {"aslr+heap-offset", false, 37, "malloc_fill_byte=190"},
    {"no-aslr+heap-offset+fill00", true, 301, "malloc_fill_byte=0:max_malloc_fill_size=1000000"},
    {"aslr+fillff", false, 5, "malloc_fill_byte=255:max_malloc_fill_size=1000000"},
};
static std::vector<std::string> spawn(const char *self, const std::string &planner, unsigned seed, bool thorough, const Layout &L, bool &timedOut)
{
    int fd[2];
    if (pipe(fd))
        exit(2);
    fflush(stdout);
    pid_t pid = fork();
    if (pid == 0)
    {
        close(fd[0]);
        dup2(fd[1], 1);
        int dn = open("/dev/null", 1);
        dup2(dn, 2);
        if (L.noAslr)
            personality(ADDR_NO_RANDOMIZE);
        std::string opts = std::string("halt_on_error=0:detect_leaks=0:allocator_may_return_null=1:handle_segv=0:hard_rss_limit_mb=6000:quarantine_size_mb=16:") + L.asan;
        setenv("ASAN_OPTIONS", opts.c_str(), 1);
        std::string s = std::to_string(seed), pa = std::to_string(L.prealloc);
        execl(self, self, "--child", planner.c_str(), s.c_str(), thorough ? "1" : "0", pa.c_str(), (char *)nullptr);
        _exit(127);
    }
    close(fd[1]);
    std::string buf;
    char tmp[4096];
    ssize_t k;
    while ((k = read(fd[0], tmp, sizeof tmp)) > 0)
        buf.append(tmp, k);
    close(fd[0]);
    int st;
    waitpid(pid, &st, 0);
    timedOut = WIFSIGNALED(st) && WTERMSIG(st) == SIGALRM;
    std::vector<std::string> lines;
    std::istringstream is(buf);
    std::string l;
    while (std::getline(is, l))
        lines.push_back(l);
    return lines;
}
static std::string g_self;
static void runPlanner(const std::string &planner, const vf::Args &a, vf::Report &rep)
{
    auto pts = points(a.thorough());
    std::vector<unsigned> seeds = {1, 2, 3};
    if (a.thorough())
        seeds.push_back(12345);
    for (unsigned seed : seeds)
    {
        std::vector<std::vector<std::string>> res;
        bool anyTimeout = false;
        for (auto &L : LAYOUTS)
        {
            bool to = false;
            res.push_back(spawn(g_self.c_str(), planner, seed, a.thorough(), L, to));
            anyTimeout |= to;
            rep.transitions++;
        }
        for (size_t pi = 0; pi < pts.size(); ++pi)
        {
            std::string rj = "{\"part\":\"planner\",\"planner\":" + vf::jesc(planner) + ",\"seed\":" + std::to_string(seed) + ",\"point\":" + std::to_string(pi) + ",\"map\":" + vf::jesc(pts[pi].map) +
                             ",\"sampler\":" + vf::jesc(pts[pi].sampler) + ",\"space\":" + vf::jesc(pts[pi].space) + ",\"budget\":" + std::to_string(pts[pi].budget) + ",\"thorough\":" +
                             (a.thorough() ? "true" : "false") + "}";
            // a point is comparable only if every layout reached it (a hang is C01/C03's finding, not this property's)
            bool all = true;
            for (auto &r : res)
                if (r.size() <= pi)
                    all = false;
            if (!all)
            {
                if (std::find(rep.caps.begin(), rep.caps.end(), "hang/crash of " + planner + " cuts the comparison short (decided by C01/C03)") == rep.caps.end())
                    rep.caps.push_back("hang/crash of " + planner + " cuts the comparison short (decided by C01/C03)");
                rep.exhaustive = false;
                break;
            }
            rep.evaluations++;
            rep.states++;
            bool same = true;
            for (auto &r : res)
                if (r[pi] != res[0][pi])
                    same = false;
            if (!same)
            {
                std::string d;
                for (size_t li = 0; li < res.size(); ++li)
                    d += std::string(LAYOUTS[li].name) + "=" + res[li][pi] + " ";
                rep.fail("C20|planner|layout-dependent-result|" + planner, "same seed, problem and evaluation budget, different result across address-layout / heap-content environments: " + d, rj);
            }
            vf::Hash h;
            h.adds(rj);
            rep.nontrivial.insert(h.h);
            vf::Hash o;
            o.adds(res[0][pi]);
            rep.outcomes.insert(o.h);
            if (rep.samples.size() < 2 && pi == 1)
                rep.sample(rj);
        }
        (void)anyTimeout;
    }
    rep.validated += seeds.size();
}

int main(int argc, char **argv)
{
    if (argc >= 6 && std::string(argv[1]) == "--child")
        return childMain(argv[2], (unsigned)atoi(argv[3]), atoi(argv[4]) != 0, atoi(argv[5]));
    {
        char buf[4096];
        ssize_t n = readlink("/proc/self/exe", buf, sizeof buf - 1);
        buf[n > 0 ? n : 0] = 0;
        g_self = buf;
    }
    ompl::msg::setLogLevel(ompl::msg::LOG_NONE);
    vf::Harness H;
    H.property = "C20";
    H.jobs = [](const vf::Args &) {
        std::vector<std::string> j{"rng-seed1", "rng-seed2", "rng-seed12345", "rng-seed0", "rng-seed4294967295"};  // incl. the boundary seeds (0 is mapped to 1 by the library)
        for (auto &e : vpl::planners())
            if (!(e.flags & vpl::TWO_THREADED))
                j.push_back(e.name);
        return j;
    };
    H.run = [](const std::string &job, const vf::Args &a, vf::Report &rep) {
        if (job.substr(0, 8) == "rng-seed")
            runRngApi((unsigned)strtoul(job.c_str() + 8, nullptr, 10), a, rep);
        else
            runPlanner(job, a, rep);
        rep.rule = "RNG API: every history of depth <= 5 (thorough 6) over {new RNG, draw uniform01 / gaussian01 / uniformNormalVector / quaternion+uniformInt from generator i, setLocalSeed(i)} after "
                   "setSeed(s), each run in two fresh processes and per generator against a solo process that performs only that generator's own operations; reseeded streams against a fresh "
                   "RNG(localSeed). Planners (real generator, oracle off): planner x {continuous, grid-snapped (ties), SE(2), R^4 with a zero-extent dimension} problems x seeds x evaluation budgets {20,100,300}, each in 5 separate "
                   "processes that differ in ASLR, heap pre-offset and the byte pattern of fresh heap memory; hash(status, flags, solution paths) must agree; non-trivial = interleaved "
                   "multi-generator histories / every planner point";
        rep.assumptions = {"the seed quantifier is a finite set: RNG API {0, 1, 2, 12345, 2^32-1}, planners {1,2,3[,12345]}: bounded enumeration",
                           "PRM, PRM*, SPARS, SPARStwo always run two threads and slice phases by wall clock: outside this property",
                           "heap contents are varied through ASan's malloc_fill_byte (the ASan build replaces the allocator, so MALLOC_PERTURB_ has no effect)",
                           "a planner that hangs or crashes on a point is C01/C03's finding; the comparison stops there"};
    };
    H.replay = [](const vf::JV &v) {
        vf::Args a;
        if (v.has("thorough") && v["thorough"].b)
            a.tier = "thorough";
        vf::Report r;
        if (v["part"].s == "rng")
        {
            std::vector<std::string> hist;
            for (auto &x : v["hist"].a)
                hist.push_back(x.s);
            bool ok1, ok2;
            auto o1 = runHistory((unsigned)v["seed"].i(), hist, ok1), o2 = runHistory((unsigned)v["seed"].i(), hist, ok2);
            if (o1 != o2)
            {
                printf("two runs differ\n");
                return true;
            }
            // re-run the whole (cheap) enumeration for this seed to re-evaluate the cross-history clauses
            a.deadline = 600;
            runRngApi((unsigned)v["seed"].i(), a, r);
        }
        else
            runPlanner(v["planner"].s, a, r);
        for (auto &f : r.failures)
            printf("%s: %s\n", f.key.c_str(), f.what.c_str());
        return !r.failures.empty();
    };
    return vf::main(argc, argv, H);
}
