# Single source of truth: harnesses per property, evidence/manifest texts.
# harness: name (executable), src (files under /verif/harness), flavour (see vcheck.flavour_flags)
HOOK_COMMITS = ['afbbdb338']

ENGINES = [
    dict(name='E4-TSE', path='engine/vsrt/vsrt.cpp, engine/tse.hpp', serves_properties=['C01', 'C03', 'C04', 'C18', 'C19'],
         kind_free_text='stateless preemption-bounded exploration of thread schedules of the real implementation: libvsrt serialises real std::threads (futex hand-off), interposes pthread/once/guards/'
                        'sleep/clock, implements the __tsan_* ABI with a vector-clock happens-before monitor; tse.hpp runs every schedule in a forked child and iterates the site sets to a fixpoint'),
    dict(name='E1-DBE', path='engine/choice.hpp', serves_properties=['C01', 'C02', 'C03', 'C04', 'C08', 'C15', 'C16', 'C17', 'C20'],
         kind_free_text='choice oracle owning every primitive random draw (hook H1), every state/control sample and the termination index; deviation-bounded explorer: all executions '
                        'with <= D departures from a fixed default answer stream among the first N choice points, plus full products over the first d points'),
    dict(name='E3-LPE', path='harness/ (per-property lattice products)', serves_properties=['C05', 'C06', 'C07', 'C08', 'C09', 'C14', 'C15', 'C16'],
         kind_free_text='exhaustive enumeration of full Cartesian products of boundary-value alphabets (inputs of pure functions, validity bit-vectors, '
                        'truncation offsets) against the real library code with reference oracles'),
    dict(name='E2-HBFS', path='engine/hbfs.hpp', serves_properties=['C10', 'C11', 'C12', 'C13'],
         kind_free_text='explicit-state breadth-first search over operation histories of the real object (fresh object + replay), '
                        'canonical state = dump of the private representation, all queries vs. a reference model in every state'),
]

HARNESSES = {
    'C19': [dict(name='c19_threads', src=['C19_threads.cpp'], flavour='tsi', ldflags=['-rdynamic']),
            dict(name='c19_tsan', src=['C19_threads.cpp'], flavour='tsan', cflags=['-DC19_FREERUN'], nojobs=True)],
    'C16': [dict(name='c16_constrained', src=['C16_constrained.cpp'], flavour='asan')],
    'C15': [dict(name='c15_informed', src=['C15_informed.cpp'], flavour='asan')],
    'C14': [dict(name='c14_dubins', src=['C14_dubins.cpp'], flavour='asan', cflags=['-O2'])],
    'C18': [dict(name='c18_ptc', src=['C18_ptc.cpp'], flavour='asan'),
            dict(name='c18_threads', src=['C19_threads.cpp'], flavour='tsi', cflags=['-DSCEN_C18'], ldflags=['-rdynamic']),
            dict(name='c19_tsan', src=['C19_threads.cpp'], flavour='tsan', cflags=['-DC19_FREERUN'], nojobs=True)],
    'C17': [dict(name='c17_simplify', src=['C17_simplify.cpp'], flavour='asan')],
    'C02': [dict(name='c02_control', src=['C02_control.cpp'], flavour='asan')],
    'C20': [dict(name='c20_repro', src=['C20_repro.cpp'], flavour='asan')],
    'C04': [dict(name='c04_costs', src=['C04_costs.cpp'], flavour='asan'),
            dict(name='c04_threads', src=['C19_threads.cpp'], flavour='tsi', cflags=['-DSCEN_C04'], ldflags=['-rdynamic'])],
    'C03': [dict(name='c03_interrupt', src=['C03_interrupt.cpp'], flavour='asan', ldflags=['-rdynamic']),
            dict(name='c03_threads', src=['C19_threads.cpp'], flavour='tsi', cflags=['-DSCEN_C03'], ldflags=['-rdynamic']),
            dict(name='c03_control', src=['C03_control.cpp'], flavour='asan', ldflags=['-rdynamic'])],
    'C01': [dict(name='c01_geometric', src=['C01_geometric.cpp'], flavour='asan'),
            dict(name='c01_threads', src=['C19_threads.cpp'], flavour='tsi', cflags=['-DSCEN_C01'], ldflags=['-rdynamic'])],
    'C09': [dict(name='c09_copy', src=['C09_copy.cpp'], flavour='asan')],
    'C08': [dict(name='c08_bounds', src=['C08_bounds.cpp'], flavour='asan')],
    'C07': [dict(name='c07_interp', src=['C07_interp.cpp'], flavour='asan')],
    'C06': [dict(name='c06_metric', src=['C06_metric.cpp'], flavour='asan')],
    'C05': [dict(name='c05_motion', src=['C05_motion.cpp'], flavour='asan')],
    'C10': [dict(name='c10_nn', src=['C10_nn.cpp'], flavour='hdr',
                 repo_src=['/repo/src/ompl/util/src/RandomNumbers.cpp', '/repo/src/ompl/util/src/Console.cpp', '/repo/src/ompl/util/src/ProlateHyperspheroid.cpp', '/repo/src/ompl/util/src/GeometricEquations.cpp'], cflags=['-O2'])],
    'C11': [dict(name='c11_heap', src=['C11_heap.cpp'], flavour='hdr')],
    'C12': [dict(name='c12_pdf', src=['C12_pdf.cpp'], flavour='hdr')],
    'C13': [dict(name='c13_grid', src=['C13_grid.cpp'], flavour='hdr')],
}

NOT_APPLICABLE = {}

HBFS_NOTE = ('Trusted: the harness reference model and canonical dump (read with -fno-access-control), g++ 12 with ASan. '
             'Silent outside the stated alphabet, size cap and depth; closure is claimed only where evidence.bounds.closure is true.')

LPE_NOTE = ('Trusted: the harness oracles (independent long-double reference distances, law formulas), the stated tolerances, g++/ASan build of libompl. '
            'Bounded-exhaustive over the lattice alphabets listed in evidence.bounds; silent about real values off the lattice.')

DBE_NOTE = ('Trusted: the choice oracle (hook H1 + sampler-allocator seam) really owns all randomness (replay-twice gate on every configuration), the harness path oracle, '
            'g++/ASan build of libompl. Bounded: deviation bound D over the first N choice points, lattice samples, the listed worlds/configurations; silent beyond.')

PROPERTY_META = {
    'C19': dict(
        deadline_quick=420, deadline_thorough=1700, engine='E4-TSE', design_ref='4/E4, 5/C19',
        technique='stateless exploration of ALL schedules with <= P preemptions of real threads of the tsan-instrumented library under a serialising scheduler (own __tsan runtime), with an in-schedule vector-clock happens-before race monitor; races confirmed by a free-running ThreadSanitizer pass',
        level_text='Documented thread-safe surface (shared SpaceInformation checkMotion/isValid with counters, shared GNAT queries, RNG and StateSpace construction, addSolutionPath vs. readers, logging vs. '
                   'handler switching, terminate() vs. eval(), the periodic termination thread), GoalLazySamples (sampling thread vs. readers, and under RRT) and the multi-threaded planners pRRT, pSBL, CForest, PRM, AnytimePathShortening with the C01 oracle: every '
                   'schedule with <= 1 (thorough 2-3) preemptions, scheduling points at every synchronisation operation, shared atomic and racy access, to the fixpoint of the site sets; each schedule '
                   'in a fresh process; deadlock/livelock detection under virtual time.',
        level_note='Trusted: libvsrt (scheduler, interposers, vector-clock monitor), gcc -fsanitize=thread instrumentation. Sequential consistency only; accesses inside uninstrumented libraries are '
                   'invisible; 2 worker threads; a race on the documented surface counts only when confirmed by an exhibited consequence or by the free-running libtsan pass.'),
    'C16': dict(
        deadline_quick=300, deadline_thorough=1500, engine='E2-HBFS', design_ref='5/C16',
        technique='exhaustive lattice pairs on the stateless projected space; explicit-state BFS over operation sequences of the stateful atlas / tangent-bundle spaces with the chart list as canonical state; sampler calls under the choice oracle',
        level_text='5 manifolds (spheres in R^3/R^4, torus, plane, sphere-plane intersection) x 3 (delta, lambda, tolerance) settings (5 for the projected space: lambda = 1.1, 1.02 added). Projected: all ordered pairs of an on-manifold lattice through '
                   'discreteGeodesic (every state on the manifold, step <= lambda*delta, success => within delta) and interpolate; all sampler modes under products / <= 2 deviations of oracle answers. '
                   'Atlas and tangent bundle: BFS over all op sequences up to depth 4 (thorough 5) with the chart list as state, same oracles each step. RRT/KPIECE1 on the sphere under all single '
                   'deviations: every solution vertex on the manifold.',
        level_note=LPE_NOTE + ' Constraint Jacobians are written to stay finite at their singular points.'),
    'C15': dict(
        deadline_quick=480, deadline_thorough=1500, engine='E3-LPE', design_ref='5/C15',
        technique='exhaustive lattice products on the real ProlateHyperspheroid (directions, affinity, determinant, measure); full products and deviation-bounded streams of oracle answers for every informed-sampler call',
        level_text='Hyperspheroid in dimensions 2-5(6) x separations x orientations x cost factors from 1+1e-9 to 100: lattice directions through the real RNG entry point land on the focal-sum surface, '
                   'transform is affine with |det| = product of semi-axes, measures equal the closed form (=> uniform push-forward). Direct, rejection and ordered (batches of 3, four calls with a shrinking bound) samplers on R^2,R^3,R^4,SE(2),SE(3) with '
                   '1-2 starts x 1-2 goals: every answer combination of the first draws and all <= 2 deviations: in bounds, heuristic cost < c (>= lower bound), informed measure; the 1/K rule decided exactly.',
        level_note=LPE_NOTE + ' The empirical distribution of samples is statistical and not decided by this family.'),
    'C14': dict(
        deadline_quick=240, deadline_thorough=1500, engine='E3-LPE', design_ref='5/C14',
        technique='exhaustive enumeration of a pose-pair lattice against the real Dubins / Reeds-Shepp spaces; independent six-word reference validated by forward simulation; curve traced through interpolate()',
        level_text='From (0,0,theta1) with headings at quadrant boundaries +-{0,1e-7,1e-3} and generic ones, to a 9x9 (thorough 17x17) position grid on [-4,4]^2 x the same headings, plus '
                   'coincident, collinear and near-degenerate targets, radii {0.5,1,2}: Dubins distance = shortest of the six canonical words; curve obeys the vehicle model (curvature, no jumps, '
                   'motion along the heading, reversals only for Reeds-Shepp), ends at the target, has the reported length, >= Euclid; prefix law; symmetrised Dubins; Reeds-Shepp symmetric and <= Dubins; the path-caching interpolate overloads traced in four parameter orders against the plain overload.',
        level_note=LPE_NOTE + ' Reeds-Shepp optimality has no independent reference.'),
    'C18': dict(
        deadline_quick=240, deadline_thorough=1500, engine='E2-HBFS', design_ref='5/C18',
        technique='exhaustive enumeration of all operation sequences up to a depth on the real termination conditions against a reference model (virtual clock); the periodic/threaded form under the thread-schedule explorer',
        level_text='Every sequence up to depth 6-8 over eval / predicate flips / terminate (condition and operands) for 12 condition shapes (plain, or/and nestings over shared operands, always, '
                   'never, evaluation period of exactly 0); IterationTerminationCondition(n<=4) incl. converted copies, reset; timed conditions (one- and two-argument form, checking interval 0) under an interposed virtual clock; exact-solution condition; cost convergence over all '
                   'cost sequences of length <= 5-6 with windows 1-3 and two thresholds.',
        level_note='Trusted: the reference models, the clock_gettime interposition. Sequential part only in this harness; terminate() from another thread and the periodic evaluation thread are explored in C19\'s schedule explorer.'),
    'C17': dict(
        deadline_quick=560, deadline_thorough=1700, engine='E1-DBE', design_ref='5/C17',
        technique='exhaustive enumeration of all short valid waypoint paths x routines x parameters x deviation-bounded answer streams of the routines\' random draws; exhaustive counts for densification; all small sets for hybridization',
        level_text='4 worlds: every sequence of 2..4 (thorough 5) waypoints with valid segments (repeated states, zero-length segments) through reduceVertices, partial/rope shortcut, '
                   'collapseCloseVertices, smoothBSpline, perturbPath, findBetterGoal, simplify, simplifyMax under 3-5 parameter settings (path length and a linear cost-field objective for the cost-aware routines) and every answer stream with <= D deviations among the first '
                   'N draws: end points, bounds, dense validity, no lengthening / no worse own objective, success => check(). interpolate(count) for every count, interpolate(), subdivide(); '
                   'hybridization of all sets of <= 3 recorded paths.',
        level_note=DBE_NOTE),
    'C02': dict(
        deadline_quick=300, deadline_thorough=1500, engine='E1-DBE', design_ref='5/C02',
        technique='deviation-bounded exhaustive exploration of every random answer, state sample and control sample of the real control planners; oracle re-propagates every segment with an independent copy of the system',
        level_text='control::RRT (with/without intermediate states), SST, EST, KPIECE1, PDST, SyclopRRT, SyclopEST x point and unicycle (wrapped heading, asymmetric control bounds) systems x step '
                   'sizes x min/max durations x maps, the library\'s k-candidate directed control sampler (k = 2, 3) and a steering propagator (SteeredControlSampler): every execution with <= D deviations among the first N choice points plus the full product over the first control/state samples; each '
                   '(state, control, duration) of every reported path is replayed step by step: whole number of steps, every step valid, next state reproduced, controls in bounds, goal/approximate coherent.',
        level_note=DBE_NOTE + ' Controls come from a 12/16-element set including the bounds.'),
    'C20': dict(
        deadline_quick=400, deadline_thorough=1700, engine='E2-HBFS', design_ref='5/C20',
        technique='exhaustive enumeration of RNG-API histories, each executed in fresh processes; bounded differential enumeration of planner runs across address-layout and heap-content environments',
        level_text='RNG API: every history up to depth 5/6 after setSeed(s), s in {1,2,12345}, executed twice in fresh processes and per generator against a solo process (i-th generator depends only on '
                   'seed and i; reseeding reproduces a fresh RNG(localSeed)). Planners with the real generator: 59 planner configurations (37 single-threaded planners incl. 4 multilevel, 19 option variants, VFRRT, TSRRT, XXL) x continuous / tie-laden / SE(2) / R^4-with-a-pinned-coordinate problems x seeds x budgets, '
                   'each point in 5 processes differing in ASLR, heap offset and fresh-heap byte pattern; results must be identical.',
        level_note='Trusted: fork/exec isolation, the observation hash (status, flags, solution path bits). The seed, problem and budget quantifiers are finite sets; layouts are 5 environments, not all.'),
    'C04': dict(
        deadline_quick=560, deadline_thorough=1700, engine='E1-DBE', design_ref='5/C04',
        technique='exhaustive enumeration of all short insertion histories into the real ProblemDefinition; deviation-bounded exploration of optimizing planners x objectives x thresholds with continued solves and query-switch histories; PRM / PRM* (always two threads) under ALL thread schedules with <= P preemptions (E4 schedule explorer)',
        level_text='(a) every insertion history of <= 4 (thorough 5) solutions over 12-16 solution kinds into a real ProblemDefinition, checked after each insertion against a reference order and all '
                   'accessor functions. (b) 17 optimizing planners (+2 non-optimizing representatives) x 5 objectives (length, state-cost integral, mechanical work, max-min clearance, weighted multi) x '
                   'thresholds x maps, three continued solves, every execution with <= D deviations among the first N choice points: stored vs. recomputed cost, admissible bound, optimized flag, '
                   'monotone best cost, best-first. Query-switch histories (short query, clearQuery|clear + the main costlier query, continued; main query, switch, switch back) with <= 1 '
                   'deviation among the first 4 (thorough 12) choice points. PRM and PRM* run the short-query / switch / main-query history under the E4 scheduler: every schedule with <= 1 '
                   '(thorough 2) preemptions on 2 maps x {clearQuery, clear}.',
        level_note=DBE_NOTE + ' Threaded planners: trusted libvsrt, sequential consistency.'),
    'C03': dict(
        deadline_quick=500, deadline_thorough=1700, engine='E1-DBE', design_ref='5/C03',
        technique='exhaustive enumeration of the termination index (every k up to past the first solution) x call histories on the real planners under the choice oracle; allocation-counting state space; for the always-multi-threaded planners (PRM, PRM*, SPARS, SPARStwo, CForest) the termination index is crossed with ALL thread schedules with <= P preemptions (E4 schedule explorer)',
        level_text='37 single-threaded geometric and multilevel planners x 3 worlds: lifecycle probes with tiny budgets first, then the termination condition first fires at EVERY evaluation index k = 0..K+5, crossed with call histories over solve / '
                   'clear / clearQuery / setProblemDefinition / getPlannerData / ProblemDefinition::clearSolutionPaths (14 curated incl. resumes with an expired budget; thorough: all of length <= 4 and single deviations of the answer stream). Per call: bounded further '
                   'evaluations, status vs. delta of the solution set, Invalid start/goal only without a valid start/goal, an exact solution is reported again after the user emptied the solution list, C01 path oracle for the current query, nothing of the old query after clear/switch, monotone best solution, ASan; after '
                   'teardown the counting state space must hold no live state and have seen no double free. PRM, PRM*, SPARS, SPARStwo (solution-checking thread) and CForest (2 workers) run under '
                   'the E4 scheduler: 3 worlds x k in {0,1,2,3,5,8,13,21} (thorough 0..40; CForest 0..8) x interrupt / resume / clear+interrupt x every schedule with <= 1 (thorough 2; CForest 0, '
                   'thorough 1) preemptions, the termination count taken over all threads of the planner.',
        level_note=DBE_NOTE + ' Crashing or hanging histories run in forked children, are re-run alone with 10x the time limit, and are reported with their history. Threaded planners: trusted libvsrt, '
                   'sequential consistency, no leak accounting there.'),
    'C01': dict(
        deadline_quick=560, deadline_thorough=1700, engine='E1-DBE', design_ref='5/C01',
        technique='deviation-bounded exhaustive exploration of every random answer and state sample of the real planners (choice oracle), independent dense path oracle on every execution; the always-multi-threaded planners (PRM, PRM*, SPARS, SPARStwo) under ALL thread schedules with <= P preemptions (E4 schedule explorer) with the same oracle',
        level_text='37 single-threaded geometric and multilevel planners (incl. QRRT, QRRT*, QMP, QMP* with the level sequence R^2 <- SE(2) on SE(2) problems; reduced configuration set for these in the quick tier), 19 option variants of them (r-disc / no delayed collision checking / pruning / rejection sampling / intermediate states / JIT sampling ... : the non-default branches of solve()) and VFRRT, TSRRT, XXL x 16+ configurations (incl. three start states, the first invalid; a coarse default projection whose cells straddle obstacle boundaries for the projection-based planners) (9 maps incl. corner-cut diagonal, U-trap, corridor, enclosed goal, obstacle on start/goal; R^2, SE(2), Dubins, '
                   'Reeds-Shepp; goal state/states/unsampleable region; thresholds, ranges, resolutions): every execution with <= D deviations among the first N choice points plus the full '
                   'product over the first state samples, each on fresh objects with termination at a fixed evaluation index; crashes/hangs isolated in forked children and replayed alone. '
                   'PRM, PRM*, SPARS, SPARStwo: 3 maps x budgets {8,34} (thorough {3,8,13,21,34,55}) x solve + continued solve x every schedule with <= 1 (thorough 2) preemptions.',
        level_note=DBE_NOTE + ' Threaded planners: trusted libvsrt, sequential consistency, default answer stream per thread.'),
    'C08': dict(
        deadline_quick=300, deadline_thorough=1500, engine='E1-DBE', design_ref='5/C08',
        technique='exhaustive products of boundary-value inputs for enforceBounds; for every sampler call, full product of oracle answers over the first draws plus all <=2-deviation answer streams (RNG hook H1)',
        level_text='enforceBounds on 27 space configurations over lattice states and products of wild per-coordinate alphabets (in bounds afterwards, unchanged if in bounds, idempotent). '
                   'Every default/subspace/compound/wrapper sampler x uniform/near/Gaussian x centres x distance scales, with every primitive random draw answered by the enumerated oracle '
                   '(u=0, u=1-2^-53, |z|=8 included); six valid-state samplers on an obstacle world with attempts 1,2,5; the first 8192 (thorough 65536) samples of the deterministic Halton samplers for R^3, SE(2), SO(2) under five bounds; the precomputed-list sampler (index ranges x uniform/near/Gaussian x full answer products). The valid-sampler world has a validity limit unrelated to obstacles, so invalid states with a large clearance exist.',
        level_note=LPE_NOTE + ' Randomness is owned through hook H1 (RNG primitives), so the library arithmetic on top of the primitives is what runs.'),
    'C09': dict(
        deadline_quick=300, deadline_thorough=1500, engine='E3-LPE', design_ref='5/C09',
        technique='exhaustive enumeration of state lattices, of all small planner-data graphs, and of every truncation offset / foreign signature / foreign marker of stored archives',
        level_text='Every lattice state of 27 space configurations through copy, clone, serialize/deserialize, reals and ScopedState into differently initialised targets; partial copies between all '
                   'ordered pairs of related spaces; StateStorage over all lists of <=3 states; PlannerData (geometric and control) over all graphs on <=2 (quick) / <=3 (thorough) vertices incl. '
                   'start+goal vertices, both marking orders and graphs after removeVertex; faults: every truncation offset of curated archives, every foreign space signature, every foreign marker.',
        level_note=LPE_NOTE + ' Foreign-archive loads run in forked children: an escaped exception or allocator abort counts as a loud rejection; only silent acceptance is a violation.'),
    'C06': dict(
        deadline_quick=240, deadline_thorough=1500, engine='E3-LPE', design_ref='5/C06',
        technique='exhaustive enumeration of all ordered pairs and triples of a boundary-value state lattice per space configuration against the real distance()',
        level_text='34 space configurations (R^n incl. negative/huge/zero-width bounds, SO(2), SO(3), SE(2), SE(3), time bounded/unbounded, discrete, torus, sphere r=1,3, '
                   'Moebius x3, Klein bottle, Dubins plain/symmetric, Reeds-Shepp (turning radii 0.5, 1, 2), wrappers, weighted, zero-weight and nested compounds, hybrid): every ordered pair of the lattice for '
                   'non-negativity, identity, positivity, extent, symmetry-iff-claimed, compound = weighted sum; every ordered triple for the triangle law where isMetricSpace().',
        level_note=LPE_NOTE),
    'C07': dict(
        deadline_quick=240, deadline_thorough=1500, engine='E3-LPE', design_ref='5/C07',
        technique='exhaustive enumeration of all ordered lattice pairs x parameter alphabets (t; s,u) against the real interpolate()',
        level_text='Same 27 space configurations: every ordered pair x t in a 7-value alphabet incl. 0, 1e-9, 1-1e-9, 1 for end points, bounds, output aliasing either input and '
                   'proportional distance (geodesic spaces named in the statement); every pair x all (s,u) for re-parameterisation, checked up to the choice of shortest curve where '
                   'that is not unique.',
        level_note=LPE_NOTE),
    'C05': dict(
        deadline_quick=300, deadline_thorough=1500, engine='E3-LPE', design_ref='5/C05',
        technique='exhaustive enumeration of all 2^n validity assignments over the n subdivision points, for every n up to the bound, against the real motion validators',
        level_text='For R^1, SO(2) across the seam, SE(2), a weighted compound, Dubins (plain and symmetric), Reeds-Shepp and Owen (3D Dubins validator), factors 1-3 and '
                   'several pairs each (incl. identical and boundary pairs), every subdivision count n <= 10 (quick) / 14 (thorough) is realised by sweeping the resolution and '
                   'ALL 2^n validity bit-vectors are executed through both forms of checkMotion plus the nullptr and aliased lastValid variants; verdict, agreement, fraction, '
                   'last-valid state, untouched storage on success, counters, queried points. Also all bit-vectors for checkMotion(states,count[,first]) and getMotionStates.',
        level_note='Trusted: the recording validity checker (matches queried states bitwise to harness-computed interpolation points), g++/ASan build of libompl. '
                   'Exhaustive in the validity predicate for each n; pairs and spaces are a finite alphabet; silent for n above the bound.'),
    'C10': dict(
        deadline_quick=520, deadline_thorough=1500, engine='E2-HBFS', design_ref='5/C10',
        technique='explicit-state BFS over op histories of the real GNAT/GNATNoThreadSafety/Linear/SqrtApprox with canonical tree states; brute-force oracle on every query in every state',
        level_text='All histories of add / add(copy of a held element) / add(vector) / remove(present) / remove(absent) / clear up to the depth bound (deduplicated on the full private tree) '
                   'for 8 GNAT parameterisations x 2 variants x 3 metrics with ties, duplicates and far clusters; the k-centers pivot draw and the '
                   'NoThreadSafety child permutation are enumerated environment answers (hooks H1/H2). In every state size, list, nearest, nearestK, nearestR '
                   'are compared position by position with brute force.',
        level_note=HBFS_NOTE + ' Degree 2 / min 2 / max 3 trees with leaf size 1-2 so that every split/rebuild path is reached with <= 7 elements.'),
    'C12': dict(
        deadline_quick=300, deadline_thorough=1500, engine='E2-HBFS', design_ref='5/C12',
        technique='explicit-state BFS over op histories of the real PDF, state = bit pattern of the private sum tree; prefix-sum oracle for boundary-value r in every state',
        level_text='All add/update/remove/clear histories up to the depth bound over weights {0,1,2,0.1,0.3,1e16} (zeros, non-representable sums, huge ratios) and {0,1e-17,2e-17,3e-18} (changes below any absolute epsilon); in every '
                   'state sample(r) is evaluated at 0, 2^-64, 1-2^-53, 1, every cumulative boundary +-1ulp and interval midpoints against long-double prefix sums, '
                   'with ASan (vector annotations) and a live-element address check deciding memory safety.',
        level_note=HBFS_NOTE + ' Rounding allowance as stated in evidence.assumptions.'),
    'C13': dict(
        deadline_quick=300, deadline_thorough=1500, engine='E2-HBFS', design_ref='5/C13',
        technique='explicit-state BFS over op histories of the real Grid/GridN/GridB, state = cells with private counters/flags + both heap arrays; set-of-cells reference model',
        level_text='All createCell+add / createCell+remove-without-add / remove+destroyCell / update / updateAll / clear histories up to the depth bound on 1-, 2- (and 3-)dimensional coordinate alphabets with and '
                   'without bounds and interior-limit override, two ordering functors; every state: lookups, neighbours (all overloads, symmetry), components, neighbour counts, '
                   'border flags, queue membership, tops and counts against a set-of-cells model.',
        level_note=HBFS_NOTE),

    'C11': dict(
        deadline_quick=200, deadline_thorough=1200, engine='E2-HBFS', design_ref='5/C11',
        technique='explicit-state BFS over op histories of the real BinaryHeap to closure, reference-model oracle in every state',
        level_text='Every reachable internal state of the real BinaryHeap with keys {0..K-1} and at most S elements (closure of the '
                   'finite state space, both comparison orders) is visited; in each one size, top, handle positions, contents, a full '
                   'drain and sort() are compared with a multiset model. Exhaustive for the stated alphabet and size cap, silent beyond.',
        level_note=HBFS_NOTE + ' Keys are small integers with duplicates; size cap 7 (quick) / 8-9 (thorough); '
                   'private fields read with -fno-access-control; elements addressed by array position so the key array determines all futures.'),
}
