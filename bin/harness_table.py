# Single source of truth: harnesses per property, evidence/manifest texts.
# harness: name (executable), src (files under /verif/harness), flavour (see vcheck.flavour_flags)
HOOK_COMMITS = ['afbbdb338']

ENGINES = [
    dict(name='E2-HBFS', path='engine/hbfs.hpp', serves_properties=['C10', 'C11', 'C12', 'C13'],
         kind_free_text='explicit-state breadth-first search over operation histories of the real object (fresh object + replay), '
                        'canonical state = dump of the private representation, all queries vs. a reference model in every state'),
]

HARNESSES = {
    'C11': [dict(name='c11_heap', src=['C11_heap.cpp'], flavour='hdr')],
    'C12': [dict(name='c12_pdf', src=['C12_pdf.cpp'], flavour='hdr')],
}

NOT_APPLICABLE = {}

PROPERTY_META = {
    'C11': dict(
        deadline_quick=200, deadline_thorough=1200, engine='E2-HBFS', design_ref='5/C11',
        technique='explicit-state BFS over op histories of the real BinaryHeap to closure, reference-model oracle in every state',
        level_text='Every reachable internal state of the real BinaryHeap with keys {0..K-1} and at most S elements (closure of the '
                   'finite state space, both comparison orders) is visited; in each one size, top, handle positions, contents, a full '
                   'drain and sort() are compared with a multiset model. Exhaustive for the stated alphabet and size cap, silent beyond.',
        level_note='Trusted: the harness model (std::map id->key), g++/ASan. Keys are small integers with duplicates; size cap 7 (quick) / 8-9 (thorough); '
                   'private fields read with -fno-access-control; elements addressed by array position so the key array determines all futures.'),
}
